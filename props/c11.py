"""C11 — block-wise and control-flow passes apply bodies exactly as specified.

Runtime monitor on a real `Compiler`:

Part A (ForEachBlockPass). Generated block circuits (blocks of width 1-4,
alone in a cycle / adjacent / overlapping qudits, plain gates, constant and
variable unitary gates, barriers) go through one or two ForEachBlockPass
instances whose bodies, collection filters and replace filters come from
vlib/workloads.py. Every body call and every replace-filter decision is
recorded twice: in the block's PassData (returned in
data['ForEachBlockPass_data']) and in a side-channel file that no data
revert can touch. Oracles: (a) the multiset of recorded calls equals the
operations selected by the collection filter, each exactly once, with the
sub-numbering / sub-model the pass documents; (b) the output's top-level
per-qudit sequences equal the input's with exactly the accepted blocks
replaced by CircuitGate(body result) at the same location, everything else
identical; (c) `replaced` flags equal the decisions; (d) with
calculate_error_bound the reported data.error >= dist2(U_in, U_out) - 2 d^2;
(e) a failing body reaches the client as an error.

Part B (IfThenElse, While, DoWhile, DoThenDecide, ParallelDo, nested
Workflows). Random pass trees with scripted predicates (outcomes popped from
PassData) and marker bodies that append gates and edit every reserved
PassData field. The returned circuit and PassData (trace, remaining script,
placement, both mappings, error, seed, model, target, user keys) and the
side-channel trace must equal those of the small interpreter `interp` of the
documented semantics below.
"""
from __future__ import annotations

import copy
import json
import os
import shutil
import signal
import tempfile
import time
from collections import Counter
from typing import Any

import numpy as np

from vlib import core
from vlib import gen
from vlib import refsim
from vlib import workloads as wl

PID = 'C11'

# ---- tunables ---------------------------------------------------------------
#               ForEach cases, control cases, processes, watchdog (s)
TIERS = {
    'quick': dict(foreach=360, control=480, procs=8, watchdog=180),
    'thorough': dict(foreach=2000, control=2800, procs=12, watchdog=300),
}
WORKERS_PER_COMPILER = 3
ERR_FLOOR = 1e-6          # numerical floor of a degree-2 distance near 0
ERR_C = 2.0               # second-order slack c * d^2 (statement)
MAX_CHOICE_RUNS = 48      # interpreter runs per case over pick_first / tie choices
NAMED_FILTERS = [
    'always', 'less-than', 'less-than-multi', 'less-than-many',
    'less-than-respecting', 'less-than-respecting-multi',
    'less-than-respecting-fully',
]
FIELDS = ('placement', 'initial_mapping', 'final_mapping', 'error', 'seed', 'model', 'target', 'keys', 'trace', 'script')


# =============================================================== Part A: ForEach
def rand_block(rng: np.random.Generator, w: int) -> Any:
    from bqskit.ir.circuit import Circuit
    c = Circuit(w)
    for _ in range(int(rng.integers(1, 9))):
        k = int(rng.integers(1, min(w, 3) + 1))
        pool = {1: gen.Q1, 2: gen.Q2, 3: gen.Q3}[k]
        g = pool[int(rng.integers(len(pool)))]
        c.append_gate(g, gen.rand_location(rng, w, k), gen.rand_params(rng, g.num_params, 'generic'))
    if rng.random() < 0.5:  # a cancellable pair for the shrinking body
        q = int(rng.integers(w))
        c.append_gate(gen.Q1[0], q)
        c.append_gate(gen.Q1[0], q)
    return c


def make_fe_circuit(rng: np.random.Generator, n: int, nops: int) -> Any:
    from bqskit.ir.circuit import Circuit
    from bqskit.ir.gates import BarrierPlaceholder
    from bqskit.ir.gates import CircuitGate
    from bqskit.ir.gates import VariableUnitaryGate
    c = Circuit(n)
    for _ in range(nops):
        r = rng.random()
        if r < 0.55:
            w = int(rng.integers(1, min(n, 4) + 1))
            sub = rand_block(rng, w)
            params = sub.params
            # a block re-parameterised after it was formed (set_params /
            # instantiate on the outer circuit, or a block gate placed with
            # explicit angles): the operation's parameters, not the ones
            # stored inside the gate, say what the block is
            if sub.num_params and rng.random() < 0.4:
                params = gen.rand_params(rng, sub.num_params, 'generic')
            c.append_gate(CircuitGate(sub), gen.rand_location(rng, n, w), params)
        elif r < 0.83:
            k = int(rng.integers(1, min(n, 3) + 1))
            pool = {1: gen.Q1, 2: gen.Q2, 3: gen.Q3}[k]
            g = pool[int(rng.integers(len(pool)))]
            c.append_gate(g, gen.rand_location(rng, n, k), gen.rand_params(rng, g.num_params, 'generic'))
        elif r < 0.90:
            k = int(rng.integers(1, min(n, 2) + 1))
            c.append_gate(gen.random_unitary_gate(rng, [2] * k), gen.rand_location(rng, n, k))
        elif r < 0.96:
            k = int(rng.integers(1, min(n, 2) + 1))
            u = np.asarray(gen.haar(rng, [2] * k))
            c.append_gate(
                VariableUnitaryGate(k), gen.rand_location(rng, n, k),
                list(np.real(u).flatten()) + list(np.imag(u).flatten()),
            )
        else:
            k = int(rng.integers(1, n + 1))
            c.append_gate(BarrierPlaceholder(k), gen.rand_location(rng, n, k))
    return c


def rand_body(rng: np.random.Generator, allow_fail: bool) -> list[list[Any]]:
    kinds = ['identity', 'xx', 'shrink', 'grow', 'perturb', 'perturb']
    out = []
    for _ in range(int(rng.choice([1, 1, 2]))):
        k = str(rng.choice(kinds))
        if k == 'perturb':
            arg: Any = float(rng.choice([1e-6, 1e-5, 1e-4, 1e-3, 1e-2]))
        else:
            arg = int(rng.integers(0, 4))
        out.append([k, arg])
    if allow_fail:
        out.append(['fail', 0] if rng.random() < 0.5 else ['fail_wide', int(rng.integers(2, 4))])
        if rng.random() < 0.5:
            out.reverse()
    return out


def make_fe_case(seed: int, idx: int) -> dict[str, Any]:
    rng = core.rng_for(seed, PID, 1, idx)
    n = int(rng.integers(2, 8)) if rng.random() < 0.85 else int(rng.integers(8, 10))
    nops = int(rng.integers(2, 26))
    c = make_fe_circuit(rng, n, nops)
    failing = rng.random() < 0.03
    passes = []
    for _ in range(2 if rng.random() < 0.3 and not failing else 1):
        rf: Any
        if rng.random() < 0.5:
            rf = ['named', str(rng.choice(NAMED_FILTERS))]
        else:
            rf = ['custom', str(rng.choice(['always', 'never', 'alternate', 'parity']))]
        passes.append({
            'body': rand_body(rng, failing),
            'cf': str(rng.choice(['default', 'default', 'blocks', 'width2', 'wide', 'odd', 'none'])),
            'rf': rf,
            'ceb': bool(rng.random() < 0.6),
        })
    if rng.random() < 0.5:  # make the error-bound monitor decisive often
        for p in passes:
            p['ceb'] = True
    init: list[list[Any]] = [['model', n, str(rng.choice(['all', 'line', 'ring']))]]
    if rng.random() < 0.3:
        init.append(['error', float(rng.choice([1e-4, 1e-2, 0.2]))])
    if rng.random() < 0.3:
        init.append(['seed', int(rng.integers(1, 1000))])
    return {
        'part': 'foreach', 'idx': idx, 'circuit': wl.circ_to_json(c),
        'passes': passes, 'init': init, 'failing': failing,
    }


def sub_of(op: Any) -> Any:
    """The circuit ForEach documents it forms for an operation."""
    from bqskit.ir.circuit import Circuit
    from bqskit.ir.gates import CircuitGate
    if isinstance(op.gate, CircuitGate):
        s = op.gate._circuit.copy()
        s.set_params(op.params)
        return s
    s = Circuit(op.num_qudits, op.radixes)
    s.append_gate(op.gate, list(range(op.num_qudits)), op.params)
    return s


def top_key(op: Any) -> str:
    """Layout-independent identity of a top-level operation."""
    from bqskit.ir.gates import CircuitGate
    if isinstance(op.gate, CircuitGate):
        s = sub_of(op)
        return json.dumps(['block', list(op.location), [int(r) for r in s.radixes], wl.flat_sequences(s)])
    return json.dumps(wl.op_to_json(op), sort_keys=True)


def top_seqs(c: Any) -> list[list[str]]:
    return wl.per_qudit([(top_key(op), tuple(op.location)) for op in c], c.num_qudits)


def count_gates(c: Any) -> tuple[int, int, int]:
    many = sum(1 for op in c if op.num_qudits > 2)
    two = sum(1 for op in c if op.num_qudits == 2)
    one = sum(1 for op in c if op.num_qudits == 1)
    return many, two, one


def doc_named_decision(method: str, new: Any, old_op: Any) -> bool | None:
    """Documented meaning of the model-independent named replace filters
    (None: not modelled here)."""
    from bqskit.ir.gates import CircuitGate
    if method == 'always':
        return True
    if not isinstance(old_op.gate, CircuitGate):
        return None  # documentation silent for non-blocks
    old = old_op.gate._circuit
    if method == 'less-than':
        return new.num_operations < old.num_operations
    return None  # -multi / -many: the documentation does not fix tie handling


def model_edges(n: int, kind: str) -> set[tuple[int, int]]:
    if kind == 'line':
        return {(i, i + 1) for i in range(n - 1)}
    if kind == 'ring':
        e = {(i, i + 1) for i in range(n - 1)}
        if n > 2:
            e.add((0, n - 1))
        return e
    return {(i, j) for i in range(n) for j in range(i + 1, n)}


def build_fe_passes(case: dict[str, Any], logpath: str) -> list[Any]:
    from bqskit.passes import ForEachBlockPass
    init = [list(a) for a in case['init']] + [['key', wl.LOGKEY, logpath]]
    out: list[Any] = [wl.SetData(init)]
    for k, p in enumerate(case['passes']):
        body = [wl.Body(kind, arg, tag='p%d.%d' % (k, j)) for j, (kind, arg) in enumerate(p['body'])]
        rf: Any = p['rf'][1] if p['rf'][0] == 'named' else wl.RFilter(p['rf'][1], logpath)
        out.append(ForEachBlockPass(
            body, calculate_error_bound=p['ceb'],
            collection_filter=wl.COLLECTION_FILTERS[p['cf']], replace_filter=rf,
        ))
    return out


def flat_unitary(c: Any) -> np.ndarray:
    items = [
        (np.asarray(g.get_unitary(list(p))), loc)
        for g, loc, p, _ in wl.flat_ops(c) if not isinstance(g, wl.PLACEHOLDERS)
    ]
    return refsim.unitary_of_items(items, list(c.radixes))


def eval_foreach(case: dict[str, Any], cin: Any, cout: Any, data: Any, log: list[Any]) -> tuple[list[dict[str, Any]], Counter, dict[str, Any]]:
    from bqskit.ir.circuit import Circuit
    from bqskit.ir.gates import CircuitGate
    from bqskit.ir.operation import Operation
    from bqskit.passes.control.foreach import default_collection_filter
    from bqskit.passes.control.foreach import gen_replace_filter
    w: list[dict[str, Any]] = []
    cnt: Counter[str] = Counter()

    def bad(kind: str, **kw: Any) -> None:
        w.append(dict(kind='foreach:' + kind, **kw))

    n = cin.num_qudits
    mkind = next(a[2] for a in case['init'] if a[0] == 'model')
    medges = model_edges(n, mkind)
    e0 = next((a[1] for a in case['init'] if a[0] == 'error'), 0.0)
    key = 'ForEachBlockPass_data'
    fe_data = data[key] if key in data else None
    if fe_data is None or len(fe_data) != len(case['passes']):
        bad('block_data_list_length', got=None if fe_data is None else len(fe_data), want=len(case['passes']))
        return w, cnt, {}
    body_log = [e[1] for e in log if e[0] == 'body']
    rf_log = [e[1] for e in log if e[0] == 'rfilter']
    cur = cin.copy()       # model state
    total_selected = total_replaced = 0
    skip_output = False
    for k, p in enumerate(case['passes']):
        cf = wl.COLLECTION_FILTERS[p['cf']] or default_collection_filter
        blocks = [(cyc, op) for cyc, op in cur.operations_with_cycles() if cf(op)]
        total_selected += len(blocks)
        cnt['blocks_selected'] += len(blocks)
        bdatas = list(fe_data[k])
        tags = ['p%d.%d' % (k, j) for j in range(len(p['body']))]
        # ---- (a) calls: side channel and returned block data
        want_calls: Counter[Any] = Counter()
        expected: list[dict[str, Any]] = []
        for cyc, op in blocks:
            sub = sub_of(op)
            if isinstance(op.gate, CircuitGate) and op.gate._circuit.num_params and \
                    not np.allclose(op.params, op.gate._circuit.params):
                cnt['blocks_with_params_differing_from_stored_ones'] += 1
            e: dict[str, Any] = {'cycle': cyc, 'op': op, 'fps': []}
            for j, (kind, arg) in enumerate(p['body']):
                fp = wl.fingerprint(sub)
                e['fps'].append(fp)
                want_calls[(tags[j], cyc, int(op.location[0]), fp)] += 1
                wl.transform(kind, arg, sub)
            e['out'] = sub
            e['out_fp'] = wl.fingerprint(sub)
            expected.append(e)
        got_calls = Counter(
            (r['tag'], r['point'][0], r['point'][1], r['fp'])
            for r in body_log if r['tag'] in tags
        )
        cnt['body_calls_seen'] += sum(got_calls.values())
        if got_calls != want_calls:
            extra, missing = got_calls - want_calls, want_calls - got_calls
            kind = 'body_called_more_than_once' if extra and not missing and set(extra) <= set(want_calls) else \
                'selected_block_not_run' if missing and not extra else 'body_ran_on_wrong_operations'
            bad(kind, pass_index=k, extra=[list(x) for x in extra.elements()][:5], missing=[list(x) for x in missing.elements()][:5])
        if len(bdatas) != len(blocks):
            bad('block_data_count', pass_index=k, got=len(bdatas), want=len(blocks))
            skip_output = True
            break
        # match returned block data to blocks by the recorded point
        by_point: dict[tuple[int, int], list[int]] = {}
        for i, (cyc, op) in enumerate(blocks):
            by_point.setdefault((cyc, int(op.location[0])), []).append(i)
        decisions: list[bool | None] = [None] * len(blocks)
        for bd in bdatas:
            calls = bd['calls'] if 'calls' in bd else []
            if [c_['tag'] for c_ in calls] != tags or [c_['ordinal'] for c_ in calls] != list(range(len(tags))):
                bad('block_data_call_record', pass_index=k, got=[(c_['tag'], c_['ordinal']) for c_ in calls], want=tags)
                continue
            pt = tuple(calls[0]['point']) if calls else None
            if pt not in by_point or len(by_point[pt]) != 1:
                bad('block_data_point_unknown', pass_index=k, point=pt)
                continue
            i = by_point[pt][0]
            cyc, op = blocks[i]
            e = expected[i]
            if [c_['fp'] for c_ in calls] != e['fps'] or calls[-1]['out_fp'] != e['out_fp']:
                bad('body_input_or_result_differs', pass_index=k, point=list(pt))
            # documented sub-numbering and sub-model
            loc = [int(q) for q in op.location]
            want_sub = sorted([q, j] for j, q in enumerate(loc))
            want_edges = sorted(
                sorted([a, b]) for a in range(len(loc)) for b in range(a + 1, len(loc))
                if tuple(sorted((loc[a], loc[b]))) in medges
            )
            c0 = calls[0]
            if c0['subnumbering'] != want_sub or c0['model_n'] != len(loc) or c0['model_edges'] != want_edges:
                bad(
                    'submodel_or_subnumbering', pass_index=k, location=loc,
                    got=[c0['subnumbering'], c0['model_n'], c0['model_edges']], want=[want_sub, len(loc), want_edges],
                )
            cnt['submodel_checks'] += 1
            decisions[i] = bool(bd['replaced']) if 'replaced' in bd else None
            if 'replaced' not in bd:
                bad('replaced_flag_missing', pass_index=k, point=list(pt))
        if any(d is None for d in decisions):
            skip_output = True
            break
        # ---- (c) decisions vs the replace filter
        if p['rf'][0] == 'named':
            method = p['rf'][1]
            mm = wl._line_model(n, mkind)  # built exactly as SetData builds it in the worker
            fn = gen_replace_filter(method, mm)
            for i, (cyc, op) in enumerate(blocks):
                want = bool(fn(expected[i]['out'], op))
                doc = doc_named_decision(method, expected[i]['out'], op)
                if doc is not None and doc != want:
                    bad('named_filter_differs_from_documentation', method=method, documented=doc, function=want)
                if decisions[i] != want:
                    bad('replaced_flag_differs_from_filter', pass_index=k, method=method, flag=decisions[i], filter=want, location=list(op.location))
                cnt['filter_decisions_checked'] += 1
        else:
            mode = p['rf'][1]
            mine = [r for r in rf_log if True]
            # entries of this pass: consumed in order below
            used = [False] * len(mine)
            for i, (cyc, op) in enumerate(blocks):
                loc = [int(q) for q in op.location]
                old_fp = wl.fingerprint(wl.op_to_json(op)[0])
                cands = [
                    j for j, r in enumerate(mine)
                    if not used[j] and r['loc'] == loc and r['old_fp'] == old_fp and r['new_fp'] == expected[i]['out_fp']
                ]
                if not cands:
                    bad('replace_filter_not_consulted', pass_index=k, location=loc)
                    continue
                if mode == 'alternate':
                    pick = [j for j in cands if mine[j]['decision'] == decisions[i]]
                    j = pick[0] if pick else cands[0]
                else:
                    j = cands[0]
                used[j] = True
                want = mine[j]['decision']
                if mode == 'always' and not want or mode == 'never' and want:
                    bad('harness_filter_inconsistent')
                if mode == 'parity' and want != ((sum(loc) + expected[i]['out'].num_operations) % 2 == 0):
                    bad('replace_filter_given_wrong_arguments', pass_index=k, location=loc)
                if decisions[i] != want:
                    bad('replaced_flag_differs_from_filter', pass_index=k, method='custom:' + mode, flag=decisions[i], filter=want, location=loc)
                cnt['filter_decisions_checked'] += 1
            rf_log = [r for j, r in enumerate(mine) if not used[j]]
        # ---- model the write-back
        nxt = Circuit(n, cur.radixes)
        idx_of = {id(op): i for i, (_, op) in enumerate(blocks)}
        for op in cur:
            i = idx_of.get(id(op))
            if i is not None and decisions[i]:
                res = expected[i]['out']
                nxt.append(Operation(CircuitGate(res), op.location, res.params))
                total_replaced += 1
            else:
                nxt.append(op)
        cur = nxt
    info = {'selected': total_selected, 'replaced': total_replaced}
    if rf_log:
        bad('replace_filter_called_on_unselected', leftover=rf_log[:4])
    if skip_output:
        return w, cnt, info
    # ---- (b) output = input with exactly the accepted blocks replaced
    so, sm = top_seqs(cout), top_seqs(cur)
    cnt['writeback_checks'] += 1
    if so != sm:
        q = next(i for i in range(n) if so[i] != sm[i])
        i = next((j for j, (x, y) in enumerate(zip(so[q], sm[q])) if x != y), min(len(so[q]), len(sm[q])))
        bad('writeback_differs', qudit=q, position=i, observed=so[q][i:i + 2], expected=sm[q][i:i + 2], lengths=[len(so[q]), len(sm[q])])
    # ---- (d) error bound
    rep = float(data.error)
    if all(p['ceb'] for p in case['passes']) and n <= 8:
        d = refsim.dist2(flat_unitary(cin), flat_unitary(cout))
        cnt['error_bound_checks'] += 1
        if d > 1e-5:
            cnt['error_bound_checks_with_distance'] += 1
        if rep < d - ERR_C * d * d - ERR_FLOOR:
            bad('error_bound_too_small', reported=rep, measured=d, slack=ERR_C * d * d + ERR_FLOOR, initial_error=e0)
        info['reported_error'] = rep
        info['measured'] = d
    return w, cnt, info


# ========================================================== Part B: control flow
def rand_acts(rng: np.random.Generator, n: int, ident: int, rich: bool) -> list[list[Any]]:
    acts: list[list[Any]] = []
    if rng.random() < 0.75:
        for _ in range(int(rng.integers(1, 3))):
            acts.append(['gate', int(rng.integers(n)), round(0.01 * ident + 0.001 * float(rng.integers(1, 9)), 6)])
    choices = ['placement', 'initial_mapping', 'final_mapping', 'error', 'seed', 'key', 'model', 'target']
    k = int(rng.integers(0, 4)) if rich else int(rng.integers(0, 2))
    for c in rng.choice(choices, size=k, replace=False):
        c = str(c)
        if c in ('placement', 'initial_mapping', 'final_mapping'):
            acts.append([c, [int(x) for x in rng.permutation(n)]])
        elif c == 'error':
            acts.append([c, round(float(rng.random()) * 0.5, 6)])
        elif c == 'seed':
            acts.append([c, int(rng.integers(1, 10000))])
        elif c == 'key':
            acts.append([c, 'k%d' % int(rng.integers(3)), int(ident)])
        elif c == 'model':
            acts.append([c, n, str(rng.choice(['line', 'ring', 'all']))])
        else:
            acts.append([c, round(0.1 + float(rng.random()), 6)])
    return acts


class TreeGen:
    def __init__(self, rng: np.random.Generator, n: int) -> None:
        self.rng = rng
        self.n = n
        self.next_id = 1
        self.script: dict[str, list[bool]] = {}
        self.pick_first_used = False

    def nid(self) -> int:
        self.next_id += 1
        return self.next_id - 1

    def mark(self, rich: bool = True) -> dict[str, Any]:
        i = self.nid()
        return {'t': 'mark', 'id': i, 'acts': rand_acts(self.rng, self.n, i, rich)}

    def pred(self, loop: bool) -> int:
        i = self.nid()
        m = int(self.rng.integers(0, 4)) if loop else int(self.rng.integers(0, 3))
        self.script[str(i)] = [bool(self.rng.random() < (0.7 if loop else 0.5)) for _ in range(m)]
        return i

    def seq(self, depth: int, in_loop: bool, in_par: bool) -> list[dict[str, Any]]:
        return [self.node(depth, in_loop, in_par) for _ in range(int(self.rng.integers(1, 4)))]

    def node(self, depth: int, in_loop: bool, in_par: bool) -> dict[str, Any]:
        rng = self.rng
        if depth <= 0 or rng.random() < 0.3:
            return self.mark()
        t = str(rng.choice(['if', 'while', 'dowhile', 'dtd', 'par', 'seq', 'dtd', 'par']))
        if t == 'seq':
            return {'t': 'seq', 'body': self.seq(depth - 1, in_loop, in_par)}
        if t == 'if':
            return {
                't': 'if', 'pred': self.pred(False), 'then': self.seq(depth - 1, in_loop, in_par),
                'else': self.seq(depth - 1, in_loop, in_par) if rng.random() < 0.6 else None,
            }
        if t in ('while', 'dowhile'):
            return {'t': t, 'pred': self.pred(True), 'body': self.seq(depth - 1, True, in_par)}
        if t == 'dtd':
            return {
                't': 'dtd', 'id': self.nid(), 'mode': str(rng.choice(['always', 'never', 'more', 'fewer', 'never'])),
                'body': self.seq(depth - 1, in_loop, in_par),
            }
        pick_first = bool(rng.random() < 0.2) and not in_loop and not in_par and not self.pick_first_used
        if pick_first:
            self.pick_first_used = True
        return {
            't': 'par', 'id': self.nid(), 'mode': str(rng.choice(['fewer', 'more', 'never', 'fewer'])),
            'pick_first': pick_first,
            'branches': [self.seq(depth - 1, in_loop, True) for _ in range(int(rng.integers(1, 4)))],
        }


def make_ctl_case(seed: int, idx: int) -> dict[str, Any]:
    rng = core.rng_for(seed, PID, 2, idx)
    n = int(rng.integers(2, 6))
    c = gen.qubit_circuit(rng, n, int(rng.integers(0, 6)), param_style='generic')
    tg = TreeGen(rng, n)
    style = idx % 4
    if style == 0:      # unit scenario: one DoThenDecide whose body edits everything
        body = [tg.mark(), tg.mark()]
        body[0]['acts'] += [['initial_mapping', [int(x) for x in rng.permutation(n)]], ['final_mapping', [int(x) for x in rng.permutation(n)]], ['placement', [int(x) for x in rng.permutation(n)]]]
        tree = [{'t': 'dtd', 'id': tg.nid(), 'mode': str(rng.choice(['never', 'always', 'fewer', 'more'])), 'body': body}]
    elif style == 1:    # unit scenario: one ParallelDo
        brs = []
        for _ in range(int(rng.integers(2, 4))):
            m = tg.mark()
            m['acts'] += [['initial_mapping', [int(x) for x in rng.permutation(n)]], ['final_mapping', [int(x) for x in rng.permutation(n)]]]
            brs.append([m] + ([tg.mark()] if rng.random() < 0.5 else []))
        pf = bool(rng.random() < 0.3)
        tg.pick_first_used = pf
        tree = [{'t': 'par', 'id': tg.nid(), 'mode': str(rng.choice(['fewer', 'more', 'never'])), 'pick_first': pf, 'branches': brs}]
    else:               # random nesting, two to three deep
        tree = tg.seq(3 if style == 3 else 2, False, False)
    init: list[list[Any]] = []
    if rng.random() < 0.7:
        init += [['placement', [int(x) for x in rng.permutation(n)]], ['initial_mapping', [int(x) for x in rng.permutation(n)]], ['final_mapping', [int(x) for x in rng.permutation(n)]]]
    if rng.random() < 0.5:
        init.append(['error', round(float(rng.random()) * 0.1, 6)])
    if rng.random() < 0.5:
        init.append(['seed', int(rng.integers(1, 1000))])
    if rng.random() < 0.5:
        init.append(['key', 'k0', -1])
    if rng.random() < 0.4:
        init.append(['model', n, str(rng.choice(['line', 'ring']))])
    return {
        'part': 'control', 'idx': idx, 'circuit': wl.circ_to_json(c), 'tree': tree,
        'script': tg.script, 'init': init, 'style': ['unit_dtd', 'unit_par', 'nest2', 'nest3'][style],
    }


def build_seq(nodes: list[dict[str, Any]], logpath: str) -> list[Any]:
    return [build_node(x, logpath) for x in nodes]


def build_node(node: dict[str, Any], logpath: str) -> Any:
    from bqskit.compiler.workflow import Workflow
    from bqskit.passes import DoThenDecide
    from bqskit.passes import DoWhileLoopPass
    from bqskit.passes import IfThenElsePass
    from bqskit.passes import ParallelDo
    from bqskit.passes import WhileLoopPass
    t = node['t']
    if t == 'mark':
        return wl.Mark(node['id'], node['acts'])
    if t == 'seq':
        return Workflow(build_seq(node['body'], logpath))
    if t == 'if':
        return IfThenElsePass(
            wl.ScriptPred(node['pred']), build_seq(node['then'], logpath),
            build_seq(node['else'], logpath) if node['else'] is not None else None,
        )
    if t == 'while':
        return WhileLoopPass(wl.ScriptPred(node['pred']), build_seq(node['body'], logpath))
    if t == 'dowhile':
        return DoWhileLoopPass(wl.ScriptPred(node['pred']), build_seq(node['body'], logpath))
    if t == 'dtd':
        return DoThenDecide(wl.Cond(node['id'], node['mode'], logpath), build_seq(node['body'], logpath))
    if t == 'par':
        return ParallelDo(
            [build_seq(b, logpath) for b in node['branches']],
            wl.LessThan(node['id'], node['mode'], logpath), node['pick_first'],
        )
    raise ValueError(t)


# ---- the interpreter of the documented semantics --------------------------
def init_state(case: dict[str, Any], n: int, nops: int) -> dict[str, Any]:
    return {
        'gates': [],            # marker gates appended so far: [q, theta]
        'nops': nops,           # number of operations of the circuit
        'placement': list(range(n)), 'initial_mapping': list(range(n)), 'final_mapping': list(range(n)),
        'error': 0.0, 'seed': None, 'model': 'all', 'target': None, 'keys': {},
        'trace': [], 'script': copy.deepcopy(case['script']),
    }


def apply_model(acts: list[list[Any]], st: dict[str, Any], n: int) -> None:
    for a in acts:
        k = a[0]
        if k == 'gate':
            st['gates'].append([int(a[1]) % n, float(a[2])])
            st['nops'] += 1
        elif k in ('placement', 'initial_mapping', 'final_mapping'):
            st[k] = [int(x) for x in a[1]]
        elif k == 'error':
            st['error'] = float(a[1])
        elif k == 'seed':
            st['seed'] = a[1]
        elif k == 'key':
            st['keys'][str(a[1])] = a[2]
        elif k == 'model':
            st['model'] = str(a[2])
        elif k == 'target':
            st['target'] = float(a[1])
        else:
            raise ValueError(k)


MAPPINGS = ('initial_mapping', 'final_mapping')


class Interp:
    """Sequential interpreter of the documented control-flow semantics.
    `become_bug` emulates PassData.become not copying the two mappings (used
    only to *name* the mechanism of a mismatch, never to accept it)."""

    def __init__(self, n: int, choices: list[int] | None = None, become_bug: bool = False) -> None:
        self.n = n
        self.choices = list(choices or [])
        self.points: list[int] = []     # alternatives at each choice point met
        self.become_bug = become_bug
        self.counts: Counter[str] = Counter()

    def choose(self, cands: list[int], results: list[dict[str, Any]]) -> int:
        """Several admissible branches (pick_first, or less_than ties): a
        choice point, resolved by the choice vector."""
        uniq: list[int] = []
        seen = set()
        for i in cands:
            key = json.dumps(results[i], sort_keys=True)
            if key not in seen:
                seen.add(key)
                uniq.append(i)
        if len(uniq) == 1:
            return uniq[0]
        k = len(self.points)
        self.points.append(len(uniq))
        c = self.choices[k] if k < len(self.choices) else 0
        return uniq[c % len(uniq)]

    def pred(self, ident: int, st: dict[str, Any], log: list[Any]) -> bool:
        lst = st['script'].get(str(ident), [])
        out = bool(lst.pop(0)) if lst else False
        st['trace'].append(['pred', ident, out])
        log.append(['pred', ident, out])
        self.counts['pred_%s' % out] += 1
        return out

    def adopt(self, st: dict[str, Any], other: dict[str, Any]) -> None:
        keep = {k: st[k] for k in MAPPINGS}
        st.clear()
        st.update(other)
        if self.become_bug:
            st.update(keep)

    def seq(self, nodes: list[dict[str, Any]], st: dict[str, Any], log: list[Any]) -> None:
        for x in nodes:
            self.node(x, st, log)

    def node(self, node: dict[str, Any], st: dict[str, Any], log: list[Any]) -> None:
        t = node['t']
        self.counts['node_' + t] += 1
        if t == 'mark':
            st['trace'].append(['pass', node['id']])
            log.append(['pass', node['id']])
            apply_model(node['acts'], st, self.n)
        elif t == 'seq':
            self.seq(node['body'], st, log)
        elif t == 'if':
            if self.pred(node['pred'], st, log):
                self.seq(node['then'], st, log)
            elif node['else'] is not None:
                self.seq(node['else'], st, log)
        elif t == 'while':
            while self.pred(node['pred'], st, log):
                self.counts['loop_iterations'] += 1
                self.seq(node['body'], st, log)
        elif t == 'dowhile':
            self.seq(node['body'], st, log)
            while self.pred(node['pred'], st, log):
                self.counts['loop_iterations'] += 1
                self.seq(node['body'], st, log)
        elif t == 'dtd':
            old = copy.deepcopy(st)
            self.seq(node['body'], st, log)
            acc = wl_decide(node['mode'], old['nops'], st['nops'])
            log.append(['cond', node['id'], acc, old['nops'], st['nops']])
            self.counts['dtd_accepted' if acc else 'dtd_rejected'] += 1
            if not acc:
                self.adopt(st, old)
        elif t == 'par':
            results = []
            sublogs = []
            for b in node['branches']:
                s = copy.deepcopy(st)
                lg: list[Any] = []
                self.seq(b, s, lg)
                results.append(s)
                sublogs.append(lg)
            log.append(['par', node['id'], sublogs])
            idxs = list(range(len(results)))
            if node['pick_first']:
                sel = self.choose(idxs, results)
                self.counts['par_pick_first'] += 1
            else:
                # the less_than-minimal branches (ties: any of them)
                minimal = [
                    i for i in idxs
                    if not any(less(node['mode'], results[j]['nops'], results[i]['nops']) for j in idxs if j != i)
                ]
                sel = self.choose(minimal, results)
                self.counts['par_selected_branch_%d' % sel] += 1
                if len(minimal) < len(results):
                    self.counts['par_with_strictly_worse_branch'] += 1
            best = results[sel]
            self.adopt(st, best)
        else:
            raise ValueError(t)


def wl_decide(mode: str, old_n: int, new_n: int) -> bool:
    return {'always': True, 'never': False, 'fewer': new_n < old_n, 'more': new_n > old_n}[mode]


def less(mode: str, a: int, b: int) -> bool:
    return {'fewer': a < b, 'more': a > b, 'never': False}[mode]


def static_paths(nodes: list[dict[str, Any]], path: tuple = (), out: dict[int, tuple] | None = None, pf: set[int] | None = None, in_pf: bool = False) -> tuple[dict[int, tuple], set[int]]:
    """id -> static ParallelDo branch context; ids below a pick_first."""
    if out is None:
        out = {}
    if pf is None:
        pf = set()
    for x in nodes:
        t = x['t']
        for key in ('id', 'pred'):
            if key in x:
                out[x[key]] = path
                if in_pf:
                    pf.add(x[key])
        if t == 'par':
            for bi, b in enumerate(x['branches']):
                static_paths(b, path + ((x['id'], bi),), out, pf, in_pf or x['pick_first'])
        else:
            for key in ('body', 'then', 'else'):
                if x.get(key):
                    static_paths(x[key], path, out, pf, in_pf)
    return out, pf


def flatten_log(log: list[Any], out: list[Any] | None = None) -> list[Any]:
    if out is None:
        out = []
    for e in log:
        if e[0] == 'par':
            for sub in e[2]:
                flatten_log(sub, out)
        else:
            out.append(e)
    return out


def observed_state(data: Any, n: int) -> dict[str, Any]:
    edges = sorted(tuple(sorted((int(a), int(b)))) for a, b in data.model.coupling_graph)
    kinds = {k: sorted(model_edges(n, k)) for k in ('all', 'line', 'ring')}
    mk = next((k for k in ('all', 'line', 'ring') if kinds[k] == edges), 'other:%s' % edges)
    if kinds['all'] == kinds['line'] == edges:
        mk = 'any'
    elif kinds['all'] == kinds['ring'] == edges:
        mk = 'all|ring'
    elif kinds['line'] == kinds['ring'] == edges:
        mk = 'line|ring'
    keys = {k: data[k] for k in data if k.startswith('k') and k[1:].isdigit()}
    return {
        'placement': [int(x) for x in data.placement],
        'initial_mapping': [int(x) for x in data.initial_mapping],
        'final_mapping': [int(x) for x in data.final_mapping],
        'error': float(data.error), 'seed': data.seed, 'model': mk, 'keys': keys,
        'trace': [list(x) for x in (data['trace'] if 'trace' in data else [])],
        'script': {k: [bool(x) for x in v] for k, v in (data['script'] if 'script' in data else {}).items()},
    }


def model_matches(kind_expected: str, observed: str) -> bool:
    return kind_expected in observed.split('|') or observed == 'any'


def compare_state(exp: dict[str, Any], obs: dict[str, Any], cin: Any, cout: Any, data: Any, n: int) -> list[str]:
    """Names of the fields in which the observed result differs."""
    diff = []
    for f in ('placement', 'initial_mapping', 'final_mapping', 'seed', 'keys', 'trace', 'script'):
        if exp[f] != obs[f]:
            diff.append(f)
    if abs(exp['error'] - obs['error']) > 1e-12:
        diff.append('error')
    if not model_matches(exp['model'], obs['model']):
        diff.append('model')
    # target
    tgt = np.asarray(data.target)
    d = tgt.shape[0]
    if exp['target'] is None:
        want = flat_unitary(cin)
    else:
        want = np.eye(d, dtype=np.complex128)
        want[0, 0] = np.exp(1j * exp['target'])
    if tgt.shape != want.shape or np.max(np.abs(tgt - want)) > 1e-9:
        diff.append('target')
    # circuit: input followed by the marker gates, per qudit
    from bqskit.ir.gates import RZGate
    keys = [(wl.leaf_key(g, loc, p), loc) for g, loc, p, _ in wl.flat_ops(cin)]
    for q, th in exp['gates']:
        keys.append((wl.leaf_key(RZGate(), (q,), (th,)), (q,)))
    if wl.per_qudit(keys, n) != wl.flat_sequences(cout):
        diff.append('circuit')
    return diff


def eval_control(case: dict[str, Any], cin: Any, cout: Any, data: Any, log: list[Any]) -> tuple[list[dict[str, Any]], Counter, dict[str, Any]]:
    w: list[dict[str, Any]] = []
    cnt: Counter[str] = Counter()
    n = cin.num_qudits
    tree = case['tree']
    paths, pf_ids = static_paths(tree)
    has_pf = any(x['t'] == 'par' and x['pick_first'] for x in walk(tree))
    obs = observed_state(data, n)
    real_all = [e for e in log if e[0] in ('pass', 'pred', 'cond')]

    def log_mismatch(lg: list[Any]) -> dict[str, Any] | None:
        """Side-channel trace (real executions, including reverted and
        unselected ones) against the interpreter's, per ParallelDo context."""
        real = real_all
        want = flatten_log(lg)
        if has_pf:
            real = [e for e in real if e[1] not in pf_ids]
            want = [e for e in want if e[1] not in pf_ids]
        ctxs = {paths.get(e[1], ()) for e in real + want}
        for cx in sorted(ctxs, key=repr):
            r = [e for e in real if paths.get(e[1], ()) == cx]
            x = [e for e in want if paths.get(e[1], ()) == cx]
            if r != x:
                i = next((j for j, (a_, b_) in enumerate(zip(r, x)) if a_ != b_), min(len(r), len(x)))
                return dict(
                    kind='control:executed_trace_differs', context=list(cx), position=i,
                    observed=r[max(0, i - 2):i + 3], expected=x[max(0, i - 2):i + 3], lengths=[len(r), len(x)],
                )
        return None

    def explore(become_bug: bool) -> tuple[Any, bool]:
        """Run the interpreter over the choice vectors (depth first) until one
        agrees with the observation. Returns (best run, exhausted?)."""
        stack: list[list[int]] = [[]]
        best = None
        tried = 0
        while stack and tried < MAX_CHOICE_RUNS:
            v = stack.pop()
            tried += 1
            st = init_state(case, n, cin.num_operations)
            apply_model([a_ for a_ in case['init']], st, n)
            it = Interp(n, v, become_bug)
            lg: list[Any] = []
            it.seq(tree, st, lg)
            diff = compare_state(st, obs, cin, cout, data, n)
            lm_ = None if become_bug else log_mismatch(lg)
            score = (len(diff), lm_ is not None)
            if best is None or score < best[0]:
                best = (score, diff, st, lm_, it)
            if score == (0, False):
                return best, True
            for i in range(len(v), len(it.points)):
                for a_ in range(1, it.points[i]):
                    stack.append(v + [0] * (i - len(v)) + [a_])
        return best, not stack

    best, exhausted = explore(False)
    _, diff, st, lm, it = best
    for k, v in it.counts.items():
        cnt[k] += v
    cnt['control_states_compared'] += 1
    cnt['side_channel_events'] += len(real_all)
    cnt['side_channel_checks'] += 1
    info = {'trace_len': len(st['trace']), 'fields_differing': diff, 'style': case['style']}
    if (diff or lm is not None) and not exhausted:
        cnt['ambiguous_choice_space_not_exhausted'] += 1
        return w, cnt, info
    if diff:
        # name the mechanism: does "become does not copy the mappings" explain it exactly?
        b2, _ = explore(True)
        explained = b2[0][0] == 0
        if explained and set(diff) <= set(MAPPINGS):
            where = {'unit_dtd': 'DoThenDecide_rejected_keeps_branch_mappings', 'unit_par': 'ParallelDo_selected_branch_mappings_lost'}.get(case['style'], 'nested')
            kind = 'control:become_omits_mappings:' + where
        else:
            kind = 'control:result_differs:' + ('circuit_or_trace' if {'circuit', 'trace', 'script'} & set(diff) else 'pass_data')
        w.append(dict(
            kind=kind, fields=diff,
            expected={f: st[f] for f in diff if f in st}, observed={f: obs[f] for f in diff if f in obs},
            explained_by_become_not_copying_mappings=explained,
        ))
    if lm is not None:
        w.append(lm)
    return w, cnt, info


def walk(nodes: list[dict[str, Any]]):
    for x in nodes:
        yield x
        for key in ('body', 'then', 'else'):
            if x.get(key):
                yield from walk(x[key])
        if x['t'] == 'par':
            for b in x['branches']:
                yield from walk(b)


# ================================================================== execution
class CaseTimeout(BaseException):  # not swallowed by `except Exception` in the client
    pass


def _alarm(signum: int, frame: Any) -> None:
    raise CaseTimeout()


def remote_error(e: BaseException) -> dict[str, Any]:
    from props.c08 import parse_remote_error
    txt = str(e.__cause__) if e.__cause__ is not None else str(e)
    d = parse_remote_error(txt)
    d['text'] = txt[-600:]
    d['has_tb'] = 'Traceback' in txt or 'File "' in txt
    return d


def run_one(comp: Any, case: dict[str, Any], tmpdir: str, watchdog: int) -> dict[str, Any]:
    res: dict[str, Any] = {'w': [], 'c': Counter(), 'info': {}, 'status': 'ok', 'rebuild': False}
    cin = wl.circ_from_json(case['circuit'])
    logpath = os.path.join(tmpdir, 'case-%s-%d.log' % (case['part'], case['idx']))
    if os.path.exists(logpath):
        os.unlink(logpath)
    if case['part'] == 'foreach':
        passes = build_fe_passes(case, logpath)
    else:
        init = [list(a) for a in case['init']] + [['key', 'script', copy.deepcopy(case['script'])], ['key', 'veriflog', logpath], ['key', 'trace', []]]
        passes = [wl.SetData(init)] + build_seq(case['tree'], logpath)
    old = signal.signal(signal.SIGALRM, _alarm)
    signal.alarm(watchdog)
    try:
        out, data = comp.compile(cin.copy(), passes, request_data=True)
        raised = None
    except CaseTimeout:
        res['status'], res['rebuild'] = 'timeout', True
        return res
    except RuntimeError as e:
        if isinstance(e.__cause__, CaseTimeout):
            res['status'], res['rebuild'] = 'timeout', True
            return res
        raised = remote_error(e)
        res['rebuild'] = True
        if not raised['has_tb']:
            # no remote traceback: the connection to the server broke (seen
            # when a loaded machine delays worker start-up); not a verdict
            res['status'] = 'infrastructure'
            res['err'] = '%r caused by %r' % (e, e.__cause__)
            return res
    finally:
        signal.alarm(0)
        signal.signal(signal.SIGALRM, old)
    log = wl.read_log(logpath)
    if os.path.exists(logpath):
        os.unlink(logpath)
    if case['part'] == 'foreach':
        # would any selected block make a body fail?
        will_fail = False
        if case['failing']:
            from bqskit.passes.control.foreach import default_collection_filter
            p = case['passes'][0]
            cf = wl.COLLECTION_FILTERS[p['cf']] or default_collection_filter
            for op in cin:
                if cf(op):
                    s = sub_of(op)
                    try:
                        for kind, arg in p['body']:
                            wl.transform(kind, arg, s)
                    except RuntimeError:
                        will_fail = True
                        break
        if will_fail:
            res['c']['failing_body_cases'] += 1
            res['info'] = {'selected': 1, 'replaced': 0, 'failing': True}
            if raised is None:
                res['w'].append(dict(kind='foreach:body_failure_not_reported_to_client'))
            elif wl.BODY_FAIL_MSG not in raised['text']:
                raised.pop('has_tb', None)
                res['w'].append(dict(kind='foreach:body_failure_reported_as_other_error', **raised))
            else:
                res['c']['failing_body_error_reached_client'] += 1
            res['status'] = 'expected_error'
            return res
    if raised is not None:
        res['status'] = 'raised'
        res['w'].append(dict(
            kind='%s:raised:%s:%s' % (case['part'], raised['exc'], raised['site']),
            exc=raised['exc'], msg=raised['msg'], site=raised['site'], frames=raised['frames'],
            text=raised['text'],
        ))
        return res
    fn = eval_foreach if case['part'] == 'foreach' else eval_control
    w, c, info = fn(case, cin, out, data, log)
    res['w'], res['c'], res['info'] = w, c, info
    return res


def make_case(seed: int, part: str, idx: int) -> dict[str, Any]:
    return make_fe_case(seed, idx) if part == 'foreach' else make_ctl_case(seed, idx)


def run_batch(arg: tuple[int, str, list[tuple[str, int]]]) -> list[dict[str, Any]]:
    seed, tier, items = arg
    wd = TIERS[tier]['watchdog']
    tmpdir = tempfile.mkdtemp(prefix='part-c11-')
    out = []
    comp = None
    try:
        for part, idx in items:
            case = make_case(seed, part, idx)
            if comp is None:
                comp = wl.safe_compiler(WORKERS_PER_COMPILER)
            t0 = time.monotonic()
            for attempt in range(3):
                if comp is None:
                    comp = wl.safe_compiler(WORKERS_PER_COMPILER)
                try:
                    r = run_one(comp, case, tmpdir, wd)
                except Exception as e:  # harness failure: never a verdict
                    r = {'w': [], 'c': {}, 'info': {}, 'status': 'harness_error', 'rebuild': True,
                         'err': '%s: %s @ %s' % (type(e).__name__, str(e)[:200], core.short_tb(e))}
                if r['status'] == 'timeout' and attempt == 0:
                    pass  # design: a case that timed out is re-run once, alone
                elif r['status'] != 'infrastructure':
                    break
                wl.close_compiler(comp)
                comp = None
            r['wall'] = time.monotonic() - t0
            if r['rebuild']:
                wl.close_compiler(comp)
                comp = None
            for x in r['w']:
                x['case'] = case
            r['c'] = dict(r['c'])
            desc = {k: case[k] for k in case if k not in ('circuit',)}
            r['meta'] = {
                'part': part, 'idx': idx, 'sig': core.sig_of(case),
                'desc': core.jsonable(desc) if len(json.dumps(core.jsonable(desc))) < 3000 else {'part': part, 'idx': idx},
            }
            out.append(r)
    finally:
        if comp is not None:
            wl.close_compiler(comp)
        shutil.rmtree(tmpdir, ignore_errors=True)
    return out


def merge(run: core.Run, r: dict[str, Any]) -> None:
    m = r['meta']
    if r['status'] == 'harness_error':
        run.inconclusive_because('harness error in %s case %d: %s' % (m['part'], m['idx'], r.get('err')))
        return
    if r['status'] == 'infrastructure':
        run.inconclusive_because('runtime connection broke three times in %s case %d: %s' % (m['part'], m['idx'], r.get('err')))
        return
    if r['status'] == 'timeout':
        run.count('timeout:' + m['part'])
        run.inconclusive_because('watchdog expired (%s case %d)' % (m['part'], m['idx']))
        return
    run.count('compiled:' + m['part'])
    for k, v in r['c'].items():
        run.count(k, v)
    info = r['info']
    if m['part'] == 'foreach':
        nt = info.get('selected', 0) >= 2 and (info.get('replaced', 0) >= 1 or info.get('failing', False))
    else:
        nt = info.get('trace_len', 0) >= 3
    run.case(m['sig'], nontrivial=bool(nt), sample={'case': m['desc'], 'observed': info})
    for x in r['w']:
        KIND_FILES[x['kind']] += 1
        run.max_violation_files = 10 ** 6 if KIND_FILES[x['kind']] <= 3 else 0
        run.violation(x)


KIND_FILES: Counter = Counter()


def main(tier: str, seed: int, replay: str | None = None) -> int:
    run = core.Run(PID, tier, seed)
    run.max_violation_files = 30
    if replay:
        return do_replay(run, replay)
    cfg = TIERS[tier]
    procs = min(cfg['procs'], max(2, (os.cpu_count() or 4) // 2))
    procs = int(os.environ.get('VERIF_PROCS', procs))
    scale = float(os.environ.get('VERIF_CASE_SCALE', '1'))  # development aid
    items = [('foreach', i) for i in range(int(cfg['foreach'] * scale))] + [('control', i) for i in range(int(cfg['control'] * scale))]
    batches = [(seed, tier, items[i::procs]) for i in range(procs)]
    results = core.pmap(run_batch, batches, workers=procs)
    for r in sorted((r for b in results for r in b), key=lambda r: (r['meta']['part'], r['meta']['idx'])):
        merge(run, r)
    for c_, m in (
        ('body_calls_seen', 50), ('blocks_selected', 50), ('submodel_checks', 50), ('filter_decisions_checked', 50),
        ('writeback_checks', 50), ('error_bound_checks_with_distance', 10), ('failing_body_error_reached_client', 1),
        ('control_states_compared', 50), ('side_channel_checks', 50), ('dtd_rejected', 10), ('dtd_accepted', 10),
        ('loop_iterations', 10), ('node_par', 10), ('node_if', 10), ('par_pick_first', 3),
        ('blocks_with_params_differing_from_stored_ones', 5),
    ):
        run.require(c_, m)
    return run.finish(
        rule='distinct generated case (circuit, passes, filters, bodies / pass tree, script, initial data); non-trivial = ForEach selected >= 2 operations and replaced >= 1 (or a body failed) / control trace has >= 3 events',
        assumptions=[
            'bodies, filters and predicates are the instrumented ones of vlib/workloads.py; their records come back in PassData and through a side-channel file',
            'error bound: reported data.error >= dist2(U_in,U_out) - 2 d^2 - 1e-6 (the degree-2 distance is a metric invariant under multiplication, so block distances add)',
            'ParallelDo with pick_first: the result must equal that of some branch; events below it are not compared in the side channel',
            'order of replace-filter calls is not assumed; decisions are matched to blocks by (location, old block, new block)',
            'the named replace filters are evaluated with the repository function on the harness side; always / less-than / less-than-multi / less-than-many are also compared with their documented meaning',
        ],
    )


def do_replay(run: core.Run, path: str) -> int:
    w = json.load(open(path))['witness']
    case = w['case']
    tmpdir = tempfile.mkdtemp(prefix='part-c11-')
    comp = wl.safe_compiler(WORKERS_PER_COMPILER)
    try:
        r = run_one(comp, case, tmpdir, 300)
    finally:
        wl.close_compiler(comp)
        shutil.rmtree(tmpdir, ignore_errors=True)
    run.count('compiled:' + case['part'])
    run.case(('replay', case))
    run.case(('replay2',))
    for k, v in dict(r['c']).items():
        run.count(k, v)
    print('replay status=%s observed=%s' % (r['status'], r['info']))
    for x in r['w']:
        x['case'] = case
        run.violation(x)
    return run.finish(rule='replay of one recorded case')
