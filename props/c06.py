"""C06 - Circuit simulation equals the ordered product of its operations.

Runtime differential monitor. For every generated circuit (mixed radixes 2-4,
width 1-6, permuted / non-adjacent locations, nested CircuitGates, constant,
parameterised, variable-unitary, frozen-parameter and hand-written Python
gates; optionally pushed through random structural edits) the public
simulation / parameter / iteration API of `Circuit` is executed and every
answer is compared with an independent model:

* get_unitary()            vs refsim product of each operation's own matrix
                             in iteration order (and in grid order);
* get_unitary(p)           vs refsim product with every *gate* evaluated at
                             its own slice of p (own index arithmetic), and
                             vs set_params(p); get_unitary();
* get_statevector(psi[,p]) vs U.psi by refsim;
* get_unitary_and_grad(p)  vs refsim product with the owning operation's
                             matrix replaced by the gate's own derivative,
                             vs central finite differences of get_unitary,
                             vs get_grad(p), stored-params path included;
* params / num_params      vs concatenation of operation params;
* get_param, set_param, get_param_location for every index; freeze_param;
* operations(...)/operations_with_cycles(...)/circuit[...] restricted
  iteration vs a brute-force filter of the grid.
"""
from __future__ import annotations

import json
import os
from typing import Any

import numpy as np

from vlib import core
from vlib import gen
from vlib import numchk as nc
from vlib import refsim

PID = 'C06'

# ---- budgets (cases per tier) ------------------------------------------
CASES = {'quick': 2000, 'thorough': 30000}
DIM_CAP = {'quick': 144, 'thorough': 256}
GRAD_REF_MAX = 10       # params per circuit checked against the analytic ref
GRAD_FD_MAX = 3         # params per circuit checked against finite differences
ITER_QUERIES = 6        # restricted-iteration queries per circuit
FREEZE_TRIES = 2
WORKERS = min(16, os.cpu_count() or 4)

TOL_U = 1e-10           # x (ops + 1)
TOL_G = 1e-9            # x (ops + 1)
TOL_FD = 1e-6           # x (1 + |dU|)


# ------------------------------------------------------------ generation
def pick_radixes(rng: np.random.Generator, cap: int, style: str) -> list[int]:
    n = int(rng.integers(1, 7))
    out: list[int] = []
    for _ in range(n):
        r = 2 if style == 'qubit' else int(rng.choice([2, 2, 3, 3, 4]))
        if refsim.dim_of(out + [r]) > cap:
            break
        out.append(r)
    return out or [2]


def diff_gate_for(rng: np.random.Generator, lr: list[int]) -> tuple[Any, list[float]] | None:
    """A differentiable parameterised gate on radixes `lr`, if we have one."""
    from bqskit.ir.gates import U8Gate
    from bqskit.ir.gates import ControlledGate, DaggerGate, U3Gate, RYGate
    t = tuple(lr)
    cands: list[Any] = []
    if t == (3,):
        cands = [U8Gate(), nc.PyGate('qtrot'), nc.PyGate('qtph')]
    elif t == (2, 3):
        cands = [nc.PyGate('cph23')]
    elif t == (2,):
        cands = [nc.PyGate('u3'), nc.PyGate('rz'), DaggerGate(U3Gate())]
    elif t == (2, 2):
        cands = [nc.PyGate('crz'), nc.PyGate('rxx'), ControlledGate(RYGate())]
    if not cands:
        return None
    g = cands[int(rng.integers(len(cands)))]
    return g, gen.rand_params(rng, g.num_params)


def build_circuit(
    rng: np.random.Generator, radixes: list[int], depth: int, nest: int,
    diffable: bool,
) -> Any:
    from bqskit.ir.circuit import Circuit
    from bqskit.ir.gates import CircuitGate
    from bqskit.ir.gates import VariableUnitaryGate
    n = len(radixes)
    c = Circuit(n, list(radixes))
    for _ in range(depth):
        k = int(rng.integers(1, min(3, n) + 1))
        loc = gen.rand_location(rng, n, k)
        lr = [radixes[q] for q in loc]
        r = rng.random()
        if nest > 0 and r < 0.2:
            sub = build_circuit(rng, lr, int(rng.integers(1, 4)), nest - 1, diffable)
            c.append_gate(CircuitGate(sub), loc, sub.params)
            continue
        if r < 0.35:
            dg = diff_gate_for(rng, lr)
            if dg is not None:
                c.append_gate(dg[0], loc, dg[1])
                continue
        if all(x == 2 for x in lr) and r < 0.7:
            pool = {1: gen.Q1, 2: gen.Q2, 3: gen.Q3}[k]
            g = pool[int(rng.integers(len(pool)))]
            c.append_gate(g, loc, gen.rand_params(rng, g.num_params))
        elif (not diffable) and r < 0.85 and refsim.dim_of(lr) <= 9:
            g = VariableUnitaryGate(k, lr)
            u = np.asarray(gen.haar(rng, lr))
            c.append_gate(g, loc, list(np.real(u).flatten()) + list(np.imag(u).flatten()))
        else:
            c.append_gate(gen.random_unitary_gate(rng, lr), loc)
    return c


def make_case(seed: int, idx: int, tier: str) -> tuple[Any, dict[str, Any], dict[str, int]]:
    rng = core.rng_for(seed, PID, 1, idx)
    counts: dict[str, int] = {}
    variant = ['mixed', 'mixed', 'mixed', 'qubit', 'qubitlib', 'edited', 'edited', 'tiny'][idx % 8]
    cap = DIM_CAP.get(tier, 144)
    diffable = bool(rng.random() < 0.7)
    if variant == 'qubitlib':
        n = int(rng.integers(1, 7))
        depth = int(rng.integers(0, 17))
        c = gen.qubit_circuit(rng, n, depth)
        radixes = [2] * n
    elif variant == 'tiny':
        radixes = pick_radixes(rng, cap, 'mixed')[: int(rng.integers(1, 3))]
        depth = int(rng.integers(0, 3))
        c = build_circuit(rng, radixes, depth, 1, diffable)
    else:
        radixes = pick_radixes(rng, cap, 'qubit' if variant == 'qubit' else 'mixed')
        depth = int(rng.integers(1, 13))
        nest = int(rng.integers(0, 3))
        c = build_circuit(rng, radixes, depth, nest, diffable)
    log: list[Any] = []
    if variant == 'edited' or rng.random() < 0.25:
        c, log = nc.random_edits(rng, c, int(rng.integers(1, 8)), counts, not diffable)
    meta = {
        'seed': seed, 'idx': idx, 'variant': variant, 'diffable_requested': diffable,
        'edits': log,
    }
    return c, meta, counts


# ------------------------------------------------------------ the monitor
class Ctx:
    def __init__(self, meta: dict[str, Any], circuit: Any) -> None:
        self.meta = meta
        self.circuit = circuit
        self.w: list[dict[str, Any]] = []
        self.c: dict[str, int] = {}

    def cnt(self, k: str, v: int = 1) -> None:
        self.c[k] = self.c.get(k, 0) + v

    def bad(self, kind: str, **kw: Any) -> None:
        d = dict(kind=kind, case=self.meta, circuit=gen.circuit_desc(self.circuit, 60))
        d.update(kw)
        self.w.append(core.jsonable(d))

    def raised(self, api: str, e: BaseException, **kw: Any) -> None:
        self.bad(
            api + ':raised', exc=type(e).__name__, msg=str(e)[:300],
            site=core.raising_site(e), frames=core.repo_frames(e), **kw,
        )


def maxdiff(a: Any, b: Any) -> float:
    a = np.asarray(a)
    b = np.asarray(b)
    if a.shape != b.shape:
        return float('inf')
    if a.size == 0:
        return 0.0
    return float(np.max(np.abs(a - b)))


def is_nontrivial(c: Any, rows: list[dict[str, Any]]) -> bool:
    from bqskit.ir.gates import CircuitGate
    if len(rows) < 2:
        return False
    mixed = len(set(c.radixes)) > 1
    permuted = any(list(r['loc']) != sorted(r['loc']) or
                   (len(r['loc']) > 1 and max(r['loc']) - min(r['loc']) >= len(r['loc']))
                   for r in rows)
    nested = any(isinstance(r['gate'], CircuitGate) for r in rows)
    return bool(mixed or permuted or nested or c.num_params > 0)


def check_sim(x: Ctx, rng: np.random.Generator) -> None:
    from bqskit.qis.state.state import StateVector
    c = x.circuit
    radixes = list(c.radixes)
    D = refsim.dim_of(radixes)
    rows = nc.op_table(c)
    nops = len(rows)
    tolU = TOL_U * (nops + 1)

    # -- iteration views agree on the set of operations -------------------
    plain = list(c)
    if len(plain) != nops or any(a is not r['op'] for a, r in zip(plain, rows)):
        x.bad('iteration:iter_vs_operations_with_cycles', n_iter=len(plain), n_cyc=nops)
    if c.num_operations != nops:
        x.bad('iteration:num_operations', got=c.num_operations, want=nops)
    grid = nc.grid_of(c)
    gops = nc.grid_ops(grid)
    if sorted((cy, id(op)) for cy, op in gops) != sorted((r['cycle'], id(r['op'])) for r in rows):
        x.bad('iteration:grid_vs_dag', grid=len(gops), dag=nops)
    x.cnt('iteration_views')

    # -- stored-params unitary --------------------------------------------
    try:
        U0 = np.asarray(c.get_unitary())
        Uref = nc.ref_unitary(c, None, rows)
        d = maxdiff(U0, Uref)
        if not d <= tolU:
            x.bad('get_unitary:stored_vs_ordered_product', diff=d, tol=tolU)
        Ugrid = refsim.unitary_of_items(
            [(np.asarray(op.get_unitary()), tuple(op.location)) for _, op in gops], radixes,
        )
        d = maxdiff(Uref, Ugrid)
        if not d <= tolU:
            x.bad('iteration_order:not_a_simulation_order', diff=d, tol=tolU)
        x.cnt('get_unitary_stored')
    except BaseException as e:  # noqa
        nc.reraise_control(e)
        x.raised('get_unitary', e)
        return

    # -- params concatenation -----------------------------------------------
    P0 = nc.concat_params(rows)
    try:
        got = np.asarray(c.params, dtype=float)
        if got.shape != P0.shape or (P0.size and not np.array_equal(got, P0)):
            x.bad('params:not_concatenation', got=got, want=P0)
        if c.num_params != len(P0):
            x.bad('num_params:mismatch', got=c.num_params, want=len(P0))
        x.cnt('params_concat')
    except BaseException as e:  # noqa
        nc.reraise_control(e)
        x.raised('params', e)
        return
    npar = len(P0)

    # -- explicit params vs own slicing vs stored ---------------------------
    p = np.array(gen.rand_params(rng, npar), dtype=float)
    c2 = None
    Up = Uref
    if npar > 0:
        try:
            Up = nc.ref_unitary(c, p, rows)
            as_list = bool(rng.random() < 0.5)
            Ue = np.asarray(c.get_unitary(list(p) if as_list else p))
            d = maxdiff(Ue, Up)
            if not d <= tolU:
                x.bad('get_unitary:explicit_params_vs_sliced_product', diff=d, tol=tolU)
            x.cnt('get_unitary_explicit')
            c2 = c.copy()
            c2.set_params(p if rng.random() < 0.5 else list(p))
            rows2 = nc.op_table(c2)
            for r, r2 in zip(rows, rows2):
                want = p[r['off']: r['off'] + r['n']]
                if r2['n'] != r['n'] or not np.array_equal(np.asarray(r2['op'].params, dtype=float), want):
                    x.bad('set_params:wrong_slice', op_index=rows.index(r), got=r2['op'].params, want=want)
                    break
            if not np.array_equal(np.asarray(c2.params, dtype=float), p):
                x.bad('set_params:params_readback', got=c2.params, want=p)
            Us = np.asarray(c2.get_unitary())
            d = maxdiff(Us, Up)
            if not d <= tolU:
                x.bad('get_unitary:stored_after_set_params', diff=d, tol=tolU)
            # the original must be untouched by the copy's set_params
            if not np.array_equal(nc.concat_params(nc.op_table(c)), P0):
                x.bad('copy:shares_params_with_original')
            x.cnt('set_params')
        except BaseException as e:  # noqa
            nc.reraise_control(e)
            x.raised('get_unitary_explicit/set_params', e)
    x.cnt('circuits_with_params' if npar else 'circuits_without_params')

    # -- state vector --------------------------------------------------------
    try:
        if rng.random() < 0.4:
            psi = np.zeros(D, dtype=complex)
            psi[int(rng.integers(D))] = 1.0
        else:
            psi = rng.normal(size=D) + 1j * rng.normal(size=D)
            psi /= np.linalg.norm(psi)
        sv = StateVector(psi, radixes)
        out = np.asarray(c.get_statevector(sv)).reshape(-1)
        d = maxdiff(out, Uref @ psi)
        if not d <= tolU:
            x.bad('get_statevector:stored', diff=d, tol=tolU)
        if not np.allclose(np.asarray(sv).reshape(-1), psi, atol=0, rtol=0):
            x.bad('get_statevector:input_mutated')
        if npar > 0:
            out = np.asarray(c.get_statevector(sv, p)).reshape(-1)
            want = refsim.state_of_items(nc.ref_items(rows, p), radixes, psi)
            d = maxdiff(out, want)
            if not d <= tolU:
                x.bad('get_statevector:explicit_params', diff=d, tol=tolU)
        x.cnt('get_statevector')
    except BaseException as e:  # noqa
        nc.reraise_control(e)
        x.raised('get_statevector', e)

    # -- gradient -------------------------------------------------------------
    try:
        diffable = bool(c.is_differentiable())
    except BaseException as e:  # noqa
        nc.reraise_control(e)
        x.raised('is_differentiable', e)
        diffable = False
    if diffable:
        try:
            U1, G = c.get_unitary_and_grad(p if npar else [])
            U1 = np.asarray(U1)
            G = np.asarray(G)
            d = maxdiff(U1, Up)
            if not d <= tolU:
                x.bad('get_unitary_and_grad:unitary', diff=d, tol=tolU)
            if npar == 0:
                if G.size != 0:
                    x.bad('get_unitary_and_grad:grad_of_constant_circuit', shape=list(G.shape))
                x.cnt('grad_constant_circuit')
            elif G.shape != (npar, D, D):
                x.bad('get_unitary_and_grad:shape', got=list(G.shape), want=[npar, D, D])
            else:
                which = list(range(npar)) if npar <= GRAD_REF_MAX else \
                    sorted(int(i) for i in rng.choice(npar, size=GRAD_REF_MAX, replace=False))
                ref = nc.ref_grad(c, p, rows, which)
                tolG = TOL_G * (nops + 1)
                for i in which:
                    d = maxdiff(G[i], ref[i])
                    if not d <= tolG * (1 + float(np.max(np.abs(ref[i])))):
                        x.bad('get_unitary_and_grad:vs_product_rule_reference', param=i, diff=d, tol=tolG)
                        break
                x.cnt('grad_vs_reference', len(which))
                fdi = [int(i) for i in rng.choice(npar, size=min(GRAD_FD_MAX, npar), replace=False)]
                for i in fdi:
                    fd = nc.central_fd(lambda q: np.asarray(c.get_unitary(q)), p, i)
                    d = maxdiff(G[i], fd)
                    tol = TOL_FD * (1 + float(np.linalg.norm(G[i], 2))) * max(1.0, float(np.max(np.abs(p))) * 1e-2)
                    if not d <= tol:
                        # blame: does the owning gate's own gradient match FD?
                        owner = next(r for r in rows if r['off'] <= i < r['off'] + r['n'])
                        k = i - owner['off']
                        sl = [float(v) for v in p[owner['off']: owner['off'] + owner['n']]]
                        gfd = nc.central_fd(lambda q: np.asarray(owner['gate'].get_unitary(list(q))), sl, k)
                        gd = maxdiff(np.asarray(owner['gate'].get_grad(sl))[k], gfd)
                        lvl = 'gate_level' if gd > tol else 'circuit_level'
                        x.bad('grad:finite_difference_mismatch:' + lvl, param=i, diff=d, tol=tol,
                              gate=repr(owner['gate'])[:60], gate_level_diff=gd)
                        break
                x.cnt('grad_vs_finite_differences', len(fdi))
                G2 = np.asarray(c.get_grad(p))
                d = maxdiff(G2, G)
                if not d <= 1e-12 * (nops + 1):
                    x.bad('get_grad:vs_get_unitary_and_grad', diff=d)
                x.cnt('get_grad')
                if c2 is not None:
                    U3, G3 = c2.get_unitary_and_grad()
                    d = max(maxdiff(np.asarray(U3), U1), maxdiff(np.asarray(G3), G))
                    if not d <= 1e-12 * (nops + 1):
                        x.bad('get_unitary_and_grad:stored_vs_explicit', diff=d)
                    x.cnt('grad_stored_path')
        except BaseException as e:  # noqa
            nc.reraise_control(e)
            x.raised('get_unitary_and_grad', e)
    else:
        x.cnt('not_differentiable_skipped')

    # -- get_param / get_param_location / set_param for every index --------
    if npar > 0:
        try:
            c3 = c.copy()
            rows3 = nc.op_table(c3)
            cur = nc.concat_params(rows3)
            newv = np.array(gen.rand_params(rng, npar, 'generic'))
            ok = True
            for r in rows3:
                for k in range(r['n']):
                    i = r['off'] + k
                    loc = c3.get_param_location(i)
                    if len(loc) != 3:
                        x.bad('get_param_location:shape', param=i, got=loc)
                        ok = False
                        break
                    cy, q, kk = (int(v) for v in loc)
                    try:
                        op_at = c3[cy, q]
                    except Exception:  # noqa
                        op_at = None
                    if op_at is not r['op'] or kk != k or cy != r['cycle']:
                        x.bad('get_param_location:wrong', param=i, got=[cy, q, kk],
                              want=[r['cycle'], list(r['loc']), k])
                        ok = False
                        break
                    gv = float(c3.get_param(i))
                    if gv != float(cur[i]):
                        x.bad('get_param:wrong_value', param=i, got=gv, want=float(cur[i]))
                        ok = False
                        break
                if not ok:
                    break
            x.cnt('get_param_location', npar)
            if ok:
                order = [int(v) for v in rng.permutation(npar)]
                for i in order[: min(npar, 24)]:
                    c3.set_param(i, float(newv[i]))
                    cur[i] = float(newv[i])
                    now = nc.concat_params(nc.op_table(c3))
                    if not np.array_equal(now, cur):
                        x.bad('set_param:wrong_effect', param=i, changed=[int(v) for v in np.nonzero(now != cur)[0]])
                        ok = False
                        break
                x.cnt('set_param', min(npar, 24))
                if ok:
                    d = maxdiff(np.asarray(c3.get_unitary()), nc.ref_unitary(c, cur, rows))
                    if not d <= tolU:
                        x.bad('set_param:unitary_after', diff=d, tol=tolU)
            for badi in (npar, npar + 3):
                try:
                    r_ = c3.get_param_location(badi)
                    x.bad('get_param_location:out_of_range_accepted', param=badi, got=r_)
                except IndexError:
                    pass
            x.cnt('param_index_out_of_range', 2)
        except BaseException as e:  # noqa
            nc.reraise_control(e)
            x.raised('get_param/set_param/get_param_location', e)

    # -- freeze_param --------------------------------------------------------
    if npar > 0:
        for i in [int(v) for v in rng.choice(npar, size=min(FREEZE_TRIES, npar), replace=False)]:
            try:
                c4 = c.copy()
                before = nc.structure(c4)
                c4.freeze_param(i)
                rows4 = nc.op_table(c4)
                P4 = nc.concat_params(rows4)
                want = np.delete(P0, i)
                if c4.num_params != npar - 1 or not np.array_equal(P4, want):
                    x.bad('freeze_param:params_after', param=i, got=P4, want=want)
                d = maxdiff(np.asarray(c4.get_unitary()), Uref)
                if not d <= tolU:
                    x.bad('freeze_param:unitary_changed', param=i, diff=d, tol=tolU)
                after = nc.structure(c4)
                owner_j = next(j for j, r in enumerate(rows) if r['off'] <= i < r['off'] + r['n'])
                if len(after) != len(before) or any(
                    (a[0], a[2]) != (b[0], b[2]) for a, b in zip(after[2:], before[2:])
                ) or any(
                    a != b for j, (a, b) in enumerate(zip(after[2:], before[2:])) if j != owner_j
                ):
                    x.bad('freeze_param:structure_changed', param=i)
                if npar - 1 > 0:
                    q = np.array(gen.rand_params(rng, npar - 1, 'generic'))
                    full = np.insert(q, i, P0[i])
                    d = maxdiff(np.asarray(c4.get_unitary(q)), nc.ref_unitary(c, full, rows))
                    if not d <= tolU:
                        x.bad('freeze_param:explicit_params_after', param=i, diff=d, tol=tolU)
                x.cnt('freeze_param')
            except BaseException as e:  # noqa
                nc.reraise_control(e)
                x.raised('freeze_param', e, param=i)

    # -- restricted iteration -----------------------------------------------
    check_iteration(x, rng, grid, gops)


def opkey(cy: int, op: Any) -> tuple[int, int]:
    return (int(cy), id(op))


def check_iteration(x: Ctx, rng: np.random.Generator, grid: list[list[Any]], gops: list[tuple[int, Any]]) -> None:
    c = x.circuit
    n = c.num_qudits
    ncyc = c.num_cycles

    def pt_ok(cy: int, q: int, start: Any, end: Any) -> bool:
        return (start is None or (cy, q) >= tuple(start)) and (end is None or (cy, q) <= tuple(end))

    def expected(qset: set[int], region: dict[int, tuple[int, int]] | None, start: Any, end: Any, exclude: bool) -> list[tuple[int, int]]:
        out = []
        for cy, op in gops:
            loc = [int(q) for q in op.location]

            def inside(q: int) -> bool:
                if q not in qset:
                    return False
                if region is not None and not (region[q][0] <= cy <= region[q][1]):
                    return False
                return True
            if not any(inside(q) and pt_ok(cy, q, start, end) for q in loc):
                continue
            if exclude and not all(inside(q) for q in loc):
                continue
            out.append(opkey(cy, op))
        return out

    def compare(kind: str, got: list[tuple[int, Any]], want: list[tuple[int, int]], reverse: bool, query: Any) -> None:
        gk = [opkey(cy, op) for cy, op in got]
        if sorted(gk) != sorted(want):
            x.bad(
                'restricted_iteration:' + kind + ':wrong_operations', query=query,
                got=[[cy, list(op.location)] for cy, op in got],
                want=[[cy, list(op.location)] for cy, op in gops if opkey(cy, op) in set(want)],
            )
            return
        cyc = [cy for cy, _ in got]
        if cyc != sorted(cyc, reverse=reverse):
            x.bad('restricted_iteration:' + kind + ':cycle_order', query=query, cycles=cyc)

    if n == 0:
        return
    for _ in range(ITER_QUERIES):
        form = str(rng.choice(['qudits', 'qudits', 'plain', 'region', 'region', 'getitem_region', 'getitem_cycle', 'getitem_slice', 'getitem_pair']))
        exclude = bool(rng.random() < 0.5)
        reverse = bool(rng.random() < 0.4)
        start = end = None
        if ncyc > 0 and rng.random() < 0.4:
            start = (int(rng.integers(ncyc)), int(rng.integers(n)))
        if ncyc > 0 and rng.random() < 0.4:
            end = (int(rng.integers(ncyc)), int(rng.integers(n)))
        kw: dict[str, Any] = {}
        if start is not None:
            kw['start'] = start
        if end is not None:
            kw['end'] = end
        try:
            if form == 'qudits':
                k = int(rng.integers(1, n + 1))
                qs = [int(q) for q in rng.choice(n, size=k, replace=False)]
                query = dict(form=form, qudits=qs, exclude=exclude, reverse=reverse, start=start, end=end)
                want = expected(set(qs), None, start, end, exclude)
                use_cycles = bool(rng.random() < 0.5)
                if use_cycles:
                    got = [(int(cy), op) for cy, op in c.operations_with_cycles(qudits_or_region=qs, exclude=exclude, reverse=reverse, **kw)]
                else:
                    ops = list(c.operations(qudits_or_region=qs, exclude=exclude, reverse=reverse, **kw))
                    got = attach_cycles(ops, gops)
                    if got is None:
                        x.bad('restricted_iteration:qudits:unknown_operation', query=query)
                        continue
                compare('qudits', got, want, reverse, query)
                x.cnt('iter_qudits')
                x.cnt('iter_exclude' if exclude else 'iter_include')
                if reverse:
                    x.cnt('iter_reverse')
                if start is not None or end is not None:
                    x.cnt('iter_start_end')
            elif form == 'plain':
                # no qudit/region restriction: only start / end / reverse
                query = dict(form=form, reverse=reverse, start=start, end=end)
                want = expected(set(range(n)), None, start, end, False)
                if start is None and end is None and reverse and rng.random() < 0.5:
                    got_ops = list(reversed(c))
                    got = attach_cycles(got_ops, gops)
                else:
                    got = [(int(cy), op) for cy, op in c.operations_with_cycles(reverse=reverse, **kw)]
                if got is None:
                    x.bad('restricted_iteration:plain:unknown_operation', query=query)
                    continue
                compare('plain', got, want, reverse, query)
                x.cnt('iter_plain')
                if reverse:
                    x.cnt('iter_reverse')
                if start is not None or end is not None:
                    x.cnt('iter_start_end')
            elif form in ('region', 'getitem_region'):
                if ncyc == 0:
                    continue
                k = int(rng.integers(1, n + 1))
                qs = sorted(int(q) for q in rng.choice(n, size=k, replace=False))
                style = str(rng.choice(['rect', 'staggered', 'surround']))
                region: dict[int, tuple[int, int]] = {}
                if style == 'surround' and gops:
                    cy, op = gops[int(rng.integers(len(gops)))]
                    w = int(rng.integers(len(op.location), max(len(op.location), min(n, 3)) + 1))
                    reg = c.surround((cy, int(op.location[0])), w)
                    region = {int(q): (int(iv[0]), int(iv[1])) for q, iv in reg.items()}
                elif style == 'rect' or len(qs) == 1:
                    a = int(rng.integers(ncyc))
                    b = int(rng.integers(a, ncyc))
                    region = {q: (a, b) for q in qs}
                else:
                    # staggered but pairwise overlapping intervals (contiguous)
                    mid = int(rng.integers(ncyc))
                    for q in qs:
                        region[q] = (int(rng.integers(0, mid + 1)), int(rng.integers(mid, ncyc)))
                if form == 'getitem_region':
                    query = dict(form=form, region=region)
                    ops = c[dict(region)]
                    got = attach_cycles(list(ops), gops, region)
                    want = expected(set(region), region, None, None, False)
                    if got is None or sorted(opkey(a, b) for a, b in got) != sorted(want):
                        x.bad('restricted_iteration:getitem_region:wrong_operations', query=query,
                              got=[list(op.location) for op in ops],
                              want=[[cy, list(op.location)] for cy, op in gops if opkey(cy, op) in set(want)])
                    x.cnt('getitem_region')
                else:
                    query = dict(form=form, region=region, style=style, exclude=exclude, reverse=reverse, start=start, end=end)
                    want = expected(set(region), region, start, end, exclude)
                    got = [(int(cy), op) for cy, op in c.operations_with_cycles(qudits_or_region=dict(region), exclude=exclude, reverse=reverse, **kw)]
                    compare('region', got, want, reverse, query)
                    x.cnt('iter_region')
                    x.cnt('iter_region_' + style)
            elif form == 'getitem_cycle':
                if ncyc == 0:
                    continue
                cy = int(rng.integers(ncyc))
                ops = c[cy]
                want = [opkey(a, b) for a, b in gops if a == cy]
                gk = sorted((cy, id(op)) for op in ops)
                if gk != sorted(want):
                    x.bad('restricted_iteration:getitem_cycle:wrong_operations', query=dict(cycle=cy),
                          got=[list(op.location) for op in ops])
                x.cnt('getitem_cycle')
            elif form == 'getitem_slice':
                if ncyc == 0:
                    continue
                a = int(rng.integers(0, ncyc))
                b = int(rng.integers(a, ncyc + 1))
                ops = c[a:b]
                want = sorted(id(op) for cy, op in gops if a <= cy < b)
                if sorted(id(op) for op in ops) != want:
                    x.bad('restricted_iteration:getitem_slice:wrong_operations', query=dict(slice=[a, b]),
                          got=[list(op.location) for op in ops])
                x.cnt('getitem_slice')
            elif form == 'getitem_pair':
                if ncyc == 0:
                    continue
                a = int(rng.integers(0, ncyc))
                b = int(rng.integers(a, ncyc + 1))
                k = int(rng.integers(1, n + 1))
                qs = [int(q) for q in rng.choice(n, size=k, replace=False)]
                ops = c[a:b, qs]
                want = sorted(
                    id(op) for cy, op in gops
                    if a <= cy < b and any(int(q) in qs for q in op.location)
                )
                if sorted(id(op) for op in ops) != want:
                    x.bad('restricted_iteration:getitem_pair:wrong_operations', query=dict(cycles=[a, b], qudits=qs),
                          got=[list(op.location) for op in ops])
                x.cnt('getitem_pair')
        except BaseException as e:  # noqa
            nc.reraise_control(e)
            x.raised('restricted_iteration:' + form, e, query=core.jsonable(locals().get('query')))


def attach_cycles(ops: list[Any], gops: list[tuple[int, Any]], region: Any = None) -> list[tuple[int, Any]] | None:
    """Give each returned operation object its cycle (objects are the stored
    ones, so identity is the link)."""
    by_id = {id(op): cy for cy, op in gops}
    out = []
    for op in ops:
        if id(op) not in by_id:
            return None
        out.append((by_id[id(op)], op))
    return out


# ------------------------------------------------------------ driver
def run_case(arg: tuple[int, int, str]) -> dict[str, Any]:
    seed, idx, tier = arg
    out: dict[str, Any] = {'w': [], 'c': {}, 'sig': None, 'nt': False, 'sample': None, 'harness': None}
    try:
        c, meta, counts = make_case(seed, idx, tier)
    except BaseException as e:  # noqa: generation failed -> not a verdict
        nc.reraise_control(e)
        out['harness'] = 'generation: %s: %s @%s' % (type(e).__name__, str(e)[:200], core.raising_site(e))
        return out
    x = Ctx(meta, c)
    for k, v in counts.items():
        x.cnt(k, v)
    rng = core.rng_for(seed, PID, 2, idx)
    sc0 = refsim.self_checks
    try:
        check_sim(x, rng)
    except BaseException as e:  # noqa: crash of the harness itself
        nc.reraise_control(e)
        import traceback
        out['harness'] = 'monitor: %s: %s\n%s' % (type(e).__name__, str(e)[:200], traceback.format_exc()[-1500:])
    x.cnt('refsim_self_checks', refsim.self_checks - sc0)
    rows = nc.op_table(c)
    desc = gen.circuit_desc(c, 60)
    out['sig'] = core.sig_of([desc, meta['variant']])
    out['nt'] = is_nontrivial(c, rows)
    out['w'] = x.w
    out['c'] = x.c
    x.cnt('variant:' + meta['variant'])
    if len(set(c.radixes)) > 1:
        x.cnt('mixed_radix_circuits')
    if c.num_operations == 0:
        x.cnt('empty_circuits')
    if c.num_qudits == 1:
        x.cnt('one_qudit_circuits')
    from bqskit.ir.gates import CircuitGate, FrozenParameterGate
    if any(isinstance(r['gate'], CircuitGate) for r in rows):
        x.cnt('circuits_with_nested_gates')
    if any(isinstance(r['gate'], FrozenParameterGate) for r in rows):
        x.cnt('circuits_with_frozen_params')
    if any(isinstance(r['gate'], nc.PyGate) for r in rows):
        x.cnt('circuits_with_python_gates')
    if idx < 3:
        out['sample'] = {'case': meta, 'circuit': desc}
    return out


def merge(run: core.Run, r: dict[str, Any]) -> None:
    for k, v in r['c'].items():
        run.count(k, v)
    if r.get('harness'):
        run.count('harness_errors')
        run.inconclusive_because('harness error: ' + r['harness'][:400])
    PENDING.extend(r['w'])


PENDING: list[dict[str, Any]] = []


def flush(run: core.Run) -> None:
    """Report the collected witnesses, one of every distinct kind first (only
    the first few get a replay file)."""
    first: dict[str, dict[str, Any]] = {}
    for w in PENDING:
        first.setdefault(str(w.get('kind')), w)
    head = list(first.values())
    ids = {id(w) for w in head}
    for w in head + [w for w in PENDING if id(w) not in ids]:
        run.violation(w)
    PENDING.clear()


def main(tier: str, seed: int, replay: str | None = None) -> int:
    run = core.Run(PID, tier, seed)
    if replay:
        return do_replay(run, replay)
    n = CASES.get(tier, CASES['quick'])
    if os.environ.get('VERIF_C06_CASES'):
        n = int(os.environ['VERIF_C06_CASES'])
    items = [(seed, i, tier) for i in range(n)]
    workers = int(os.environ.get('VERIF_WORKERS', WORKERS))
    res = core.pmap(run_case, items, workers=workers, chunksize=25)
    for r in res:
        run.case(r['sig'] or 'none', nontrivial=bool(r['nt']) and r['sig'] is not None, sample=r['sample'])
        merge(run, r)
    flush(run)
    for cnt in (
        'get_unitary_stored', 'get_unitary_explicit', 'set_params', 'get_statevector',
        'grad_vs_reference', 'grad_vs_finite_differences', 'get_grad', 'grad_stored_path',
        'params_concat', 'get_param_location', 'set_param', 'freeze_param',
        'iter_qudits', 'iter_plain', 'iter_region', 'iter_exclude', 'iter_reverse', 'iter_start_end',
        'getitem_region', 'getitem_cycle', 'getitem_slice', 'getitem_pair',
        'mixed_radix_circuits', 'circuits_with_nested_gates', 'circuits_with_frozen_params',
        'empty_circuits', 'one_qudit_circuits', 'grad_constant_circuit', 'refsim_self_checks',
    ):
        run.require(cnt, 1)
    return run.finish(
        rule='seeded random circuits (mixed radixes 2-4, width 1-6, dim <= %d, permuted/non-adjacent locations, nested CircuitGates <= 2 deep, constant/parameterised/variable/frozen/Python gates, half of them after random structural edits); distinct = distinct (circuit description, variant); non-trivial = >= 2 operations and (mixed radixes or a permuted/non-adjacent location or a nested gate or >= 1 parameter)' % DIM_CAP.get(tier, 144),
        assumptions=[
            'each operation\'s own matrix / derivative (gate.get_unitary, gate.get_grad) is taken as given; their correctness is C18',
            'vlib/refsim.py (tensordot, cross-checked by explicit Kronecker products every 50th call) is the reference simulator',
            'restricted iteration: an operation is "inside" a qudit set / region when at least one of its points is (all of them with exclude=True); start/end bound the points lexicographically (cycle, qudit); only the set of operations and cycle-monotone order are compared, not the order inside a cycle',
            'failures of the structural editing calls themselves are not judged here (C04/C05): an edit that raises is discarded',
        ],
        extra={'workers': workers},
    )


def do_replay(run: core.Run, path: str) -> int:
    w = json.load(open(path))['witness']
    case = w.get('case') or {}
    if 'seed' not in case or 'idx' not in case:
        print('replay file has no (seed, idx)')
        return 2
    tier = json.load(open(path)).get('tier', 'quick')
    r = run_case((int(case['seed']), int(case['idx']), tier))
    run.case(r['sig'] or 'none')
    run.case('replay-marker')
    merge(run, r)
    flush(run)
    print('replayed case seed=%d idx=%d: %d witnesses (recorded kind: %s)' % (case['seed'], case['idx'], len(r['w']), w.get('kind')))
    for ww in r['w']:
        print('  kind', ww['kind'])
    return run.finish(rule='replay of one recorded case (regenerated from seed and index)')
