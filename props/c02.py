"""C02 — compile() output is executable on the target machine model.

Two monitors:

 (a) end-to-end: every circuit returned by `bqskit.compile(input, model, ...)`
     for the four input kinds (circuit, unitary, state, state system) is
     checked by an independent compatibility checker (width, radixes, native
     gates except measurement/barrier/reset placeholders, every multi-qudit
     operation only on coupled qudits, pairs compared unordered), and
     `model.is_compatible(out)` must give the same verdict;
 (b) differential corpus: (circuit, model, placement) triples built from the
     compiled outputs, from random native circuits and from single-step
     corruptions of compatible circuits (non-native gate, uncoupled pair,
     reversed location, one radix changed, widened circuit) with identity,
     monotone and non-monotone placements; `model.is_compatible(c, placement)`
     must agree with the independent checker on every triple.
"""
from __future__ import annotations

from typing import Any

import numpy as np

from vlib import compilechk as cc
from vlib import core

PID = 'C02'

# ---------------------------------------------------------------- case tables
# quick: (kind, label, n, extra width, graph, gateset, level, options)
QUICK: list[tuple[str, str, int, int, str, str, int, dict[str, Any]]] = [
    ('circuit', '', 3, 1, 'line', 'cz_rz_sx', 1, dict(depth=6, force3=True, workers=3)),
    ('circuit', '', 4, 0, 'star', 'sqisw_u3', 1, dict(depth=7, workers=3)),
    ('circuit', '', 3, 2, 'tree', 'cx_cz_u3', 2, dict(depth=6, workers=3)),
    ('circuit', '', 4, 1, 'grid', 'isw_rz_rx', 1, dict(depth=8, workers=3)),
    ('circuit', '', 2, 1, 'line', 'rigetti', 1, dict(depth=5, workers=2)),
    ('circuit', '', 3, 0, 'ring', 'cx_u3', 1, dict(depth=6, measure='end', barriers=1, workers=2)),
    ('circuit', '', 3, 0, 'line', 'cz_u3', 3, dict(depth=5, p3=0.0, workers=4)),
    # a fully entangling circuit narrower than an asymmetric machine at level 3:
    # blocks are resynthesised after mapping while the placement is not the
    # identity, so each block must get the coupling of its *placed* qudits
    ('circuit', '', 3, 2, 'custom', 'cx_u3', 3, dict(entangle=True, workers=4, edges=[[0, 1], [0, 2], [1, 3], [2, 3], [3, 4]])),
    ('unitary', 'haar', 2, 0, 'line', 'cz_rz_sx', 1, dict(workers=2)),
    ('unitary', 'clifford', 2, 0, 'line', 'sqisw_u3', 2, dict(workers=2)),
    ('unitary', 'haar', 1, 0, 'line', 'isw_rz_rx', 1, dict(workers=1)),
    ('unitary', 'diagonal', 2, 1, 'line', 'cx_u3', 1, dict(workers=2)),
    ('state', 'random', 2, 0, 'line', 'cx_u3', 1, dict(workers=2)),
    ('state', 'ghz', 3, 0, 'star', 'cz_rz_sx', 1, dict(workers=3)),
    ('state', 'w', 2, 0, 'line', 'cz_u3', 2, dict(workers=2, eps=1e-6)),
    ('system', '2', 2, 0, 'line', 'cx_u3', 1, dict(workers=2)),
    ('system', '1', 2, 0, 'line', 'cz_rz_sx', 1, dict(workers=2)),
    ('system', '3', 2, 0, 'line', 'sqisw_u3', 2, dict(workers=2, eps=1e-6)),
]
QUICK_TIMEOUT = 300.0
QUICK_CORPUS = 600

THOROUGH_CASES = 110
THOROUGH_TIMEOUT = {1: 600.0, 2: 900.0, 3: 1200.0, 4: 1500.0}
THOROUGH_CORPUS = 8000
THOROUGH_BUDGET_S = 25 * 60.0
EST = {1: 8, 2: 20, 3: 60, 4: 150}


def make_case(seed: int, idx: int, tpl: tuple[Any, ...]) -> dict[str, Any]:
    kind, label, n, extra, graph, gs, lvl, o = tpl
    rng = core.rng_for(seed, PID, 0, idx)
    radix = int(o.get('radix', 2))
    rad = [radix] * n
    if kind == 'circuit' and o.get('entangle'):
        from vlib import gen
        ops: list[list[Any]] = [['H', [0], []]]
        pairs = [(a, b) for a in range(n) for b in range(a + 1, n)]
        seq = [pairs[i % len(pairs)] for i in (0, len(pairs) - 1, 1, 0, len(pairs) - 1)] if n == 3 else pairs + pairs[:2]
        for a, b in seq:
            ops.append(['CX', [a, b], []])
            ops.append(['U3', [a], gen.rand_params(rng, 3, 'generic')])
            ops.append(['U3', [b], gen.rand_params(rng, 3, 'generic')])
        inp = {'kind': 'circuit', 'radixes': rad, 'ops': ops}
    elif kind == 'circuit':
        inp = cc.gen_circuit_spec(
            rng, n, int(o.get('depth', 6)), radix=radix, p3=o.get('p3', 0.1),
            force3=o.get('force3', False), barriers=o.get('barriers', 0),
            measure=o.get('measure', ''),
        )
    elif kind == 'unitary':
        inp = cc.gen_unitary_spec(rng, label, rad)
    elif kind == 'state':
        inp = cc.gen_state_spec(rng, label, rad)
    else:
        inp = cc.gen_system_spec(rng, int(label), rad, orthogonal=o.get('orthogonal', True))
    model = cc.gen_model_spec(rng, n + extra, 'line' if o.get('edges') else graph, gs, radix=radix)
    if o.get('edges'):
        model = dict(model, graph='custom', edges=[list(e) for e in o['edges']], all_to_all=False)
    if kind != 'circuit' and extra > 0:
        # direct synthesis is not mapped: keep the first n machine qudits
        # connected so that the target is reachable on them
        model = cc.gen_model_spec(rng, n + extra, 'line', gs, radix=radix)
    cfg = {
        'level': lvl, 'mss': int(o.get('mss', 3)), 'eps': float(o.get('eps', 1e-8)),
        'seed': int(rng.integers(1, 1 << 30)), 'workers': int(o.get('workers', 2)),
    }
    return {
        'input': inp, 'model': model, 'config': cfg,
        'est': EST[lvl] * n * n, 'nontrivial': True, 'index': idx,
    }


def thorough_templates(seed: int) -> list[tuple[Any, ...]]:
    from vlib import gen
    rng = core.rng_for(seed, PID, 1)
    out: list[tuple[Any, ...]] = []
    gss = cc.QUBIT_GATESETS + ['rigetti', 'ankaa', 'quantinuum']
    for j in range(THOROUGH_CASES):
        kind = str(rng.choice(['circuit', 'circuit', 'unitary', 'state', 'system']))
        lvl = int(rng.choice([1, 1, 1, 2, 2, 3, 4]))
        o: dict[str, Any] = {'workers': int(rng.choice([1, 2, 4]))}
        graph = str(rng.choice(gen.GRAPH_KINDS))
        gs = str(gss[j % len(gss)])
        if kind == 'circuit':
            n = int(rng.integers(1, 5 if lvl <= 2 else 4))
            extra = int(rng.integers(0, 3))
            o['depth'] = int(rng.integers(3, 10 if lvl <= 2 else 6))
            o['force3'] = bool(rng.random() < 0.25)
            if rng.random() < 0.15:
                o['measure'] = 'end'
            if rng.random() < 0.1:
                o['barriers'] = 1
            label = ''
        else:
            n = int(rng.integers(1, 4 if lvl <= 2 else 3))
            if kind != 'unitary' and n == 1 and rng.random() < 0.85:
                n = 2   # one-qudit states/systems crash (C03): a few only
            if kind == 'state' and lvl >= 2 and rng.random() < 0.75:
                lvl = 1  # state preparation crashes in its scan above level 1
            if kind == 'system' and lvl == 4 and rng.random() < 0.7:
                lvl = 2
            extra = int(rng.random() < 0.15)
            if kind == 'unitary':
                label = str(rng.choice(cc.UNITARY_LABELS))
            elif kind == 'state':
                label = str(rng.choice(cc.STATE_LABELS))
            else:
                label = str(int(rng.integers(1, 2 ** n + 1)))
                o['orthogonal'] = bool(rng.random() < 0.7)
            if lvl == 4 and n > 2:
                n = 2
            if kind in ('state', 'system') and lvl >= 2 and rng.random() < 0.85:
                o['eps'] = 1e-6   # level >= 2 state workflows stall below ~1e-7
        if rng.random() < 0.06 and lvl <= 2 and n <= 2 and kind in ('circuit', 'unitary'):
            o['radix'] = 3
            gs = 'default3'
            o.pop('measure', None)
            o.pop('barriers', None)
        out.append((kind, label, n, extra, graph, gs, lvl, o))
    return out


# ------------------------------------------------------- differential corpus
def _native_circuit_spec(
    rng: np.random.Generator, n_c: int, model: dict[str, Any], pl: list[int], depth: int,
) -> dict[str, Any]:
    """Circuit on n_c qudits from the model's native gates, every multi-qudit
    gate on a pair that `pl` maps to a coupled pair (either orientation)."""
    from vlib import gen
    t = cc.gate_table()
    names = list(cc._GS[model['gateset']])
    edges = {frozenset(e) for e in cc.model_edges(model)}
    pairs = [
        (a, b) for a in range(n_c) for b in range(n_c)
        if a != b and frozenset((pl[a], pl[b])) in edges
    ]
    ops: list[list[Any]] = []
    for _ in range(depth):
        nm = names[rng.integers(len(names))]
        g = t[nm]
        if g.num_qudits == 1:
            loc = [int(rng.integers(n_c))]
        elif g.num_qudits == 2 and pairs:
            loc = list(pairs[rng.integers(len(pairs))])
        else:
            continue
        if nm == 'VU3':
            u = gen.haar(rng, [3]).numpy
            params = [float(x) for x in list(np.real(u).flatten()) + list(np.imag(u).flatten())]
        else:
            params = gen.rand_params(rng, g.num_params)
        ops.append([nm, loc, params])
    return {'kind': 'circuit', 'radixes': [model.get('radix', 2)] * n_c, 'ops': ops}


CORRUPTIONS = ['none', 'none', 'nonnative_gate', 'uncoupled_pair', 'reverse_location', 'radix', 'widen', 'placeholder']
PLACEMENTS = ['identity', 'monotone', 'nonmonotone']


def corpus_case(arg: tuple[int, int, Any]) -> dict[str, Any]:
    """One (circuit, model, placement) triple; returns counters + witnesses."""
    seed, i, compiled = arg
    from bqskit.ir.circuit import Circuit
    rng = core.rng_for(seed, PID, 5, i)
    out: dict[str, Any] = {'c': {}, 'w': []}

    def cnt(k: str) -> None:
        out['c'][k] = out['c'].get(k, 0) + 1

    radix = 2
    src = 'random'
    if compiled is not None:
        spec, model = compiled
        src = 'compiled'
        radix = model.get('radix', 2)
        n_m = model['n']
        n_c = len(spec['radixes'])
        pkind = 'identity'
        pl = list(range(n_c))
    else:
        n_m = int(rng.integers(2, 7))
        if rng.random() < 0.1:
            radix = 3
        model = cc.gen_model_spec(rng, n_m, '', '', radix=radix)
        n_c = int(rng.integers(1, n_m + 1))
        pkind = str(rng.choice(PLACEMENTS))
        if pkind == 'identity':
            pl = list(range(n_c))
        elif pkind == 'monotone':
            pl = sorted(int(x) for x in rng.choice(n_m, size=n_c, replace=False))
        else:
            pl = [int(x) for x in rng.permutation(n_m)[:n_c]]
            if pl == sorted(pl):
                pl = pl[::-1]
            if pl == sorted(pl):
                pkind = 'monotone'
        spec = _native_circuit_spec(rng, n_c, model, pl, int(rng.integers(2, 12)))
    corr = str(rng.choice(CORRUPTIONS))
    spec = {'kind': 'circuit', 'radixes': list(spec['radixes']), 'ops': [list(o) for o in spec['ops']]}
    applied = 'none'
    t = cc.gate_table()
    native = set(cc._GS[model['gateset']])
    if corr == 'nonnative_gate':
        pool = [g for g in (cc.Q1_NAMES + cc.Q2_NAMES if radix == 2 else cc.T1_NAMES) if g not in native]
        nm = pool[rng.integers(len(pool))]
        g = t[nm]
        if g.num_qudits <= n_c and nm != 'VU3':
            from vlib import gen
            loc = [int(x) for x in rng.choice(n_c, size=g.num_qudits, replace=False)]
            spec['ops'].insert(int(rng.integers(len(spec['ops']) + 1)), [nm, loc, gen.rand_params(rng, g.num_params)])
            applied = corr
    elif corr == 'uncoupled_pair':
        edges = {frozenset(e) for e in cc.model_edges(model)}
        bad = [
            (a, b) for a in range(n_c) for b in range(n_c)
            if a != b and frozenset((pl[a], pl[b])) not in edges
        ]
        two = [g for g in native if t[g].num_qudits == 2]
        if bad and two:
            from vlib import gen
            nm = two[rng.integers(len(two))]
            spec['ops'].append([nm, list(bad[rng.integers(len(bad))]), gen.rand_params(rng, t[nm].num_params)])
            applied = corr
    elif corr == 'reverse_location':
        idxs = [k for k, o in enumerate(spec['ops']) if len(o[1]) == 2]
        if idxs:
            k = idxs[rng.integers(len(idxs))]
            spec['ops'][k][1] = spec['ops'][k][1][::-1]
            applied = corr
    elif corr == 'radix':
        used = {q for o in spec['ops'] for q in o[1]}
        free = [q for q in range(n_c) if q not in used]
        if free:
            q = free[rng.integers(len(free))]
            spec['radixes'][q] = 5 - radix  # 2 <-> 3
            applied = corr
    elif corr == 'widen' and src == 'random':
        extra = n_m + 1 - n_c
        spec['radixes'] = spec['radixes'] + [radix] * extra
        pl = pl + [q for q in range(n_m) if q not in pl] + [0]
        pl = pl[:n_m + 1]
        applied = corr
    elif corr == 'placeholder' and radix == 2:
        qs = sorted(int(x) for x in rng.choice(n_c, size=int(rng.integers(1, n_c + 1)), replace=False))
        if rng.random() < 0.5:
            spec['ops'].append(['barrier', qs, []])
        else:
            spec['ops'].append(['measure', qs, [], {'cregs': [['c', n_c]], 'meas': [[q, ['c', q]] for q in qs]}])
        applied = corr
    try:
        circ = cc.build_circuit(spec)
    except Exception as e:  # noqa
        out['c']['corpus_build_failed'] = 1
        out['err'] = repr(e)[:200]
        return out
    bq_model = cc.build_model(model)
    placement = None if (src == 'compiled' and applied != 'widen' and rng.random() < 0.5) else list(pl)
    want_why = cc.indep_compat(circ, model, placement)
    literal = cc.indep_compat(circ, model, placement, exempt_placeholders=False)
    want = not want_why
    try:
        got: Any = bool(bq_model.is_compatible(circ, placement))
    except Exception as e:  # noqa
        got = 'raised:%s' % type(e).__name__
    cnt('corpus_triples')
    cnt('corpus_src_' + src)
    cnt('corpus_corruption_' + applied)
    cnt('corpus_placement_' + (pkind if placement is not None else 'none'))
    cnt('corpus_expected_' + ('compatible' if want else 'incompatible'))
    out['sig'] = [src, applied, pkind if placement is not None else 'none', want]
    if got != want:
        eff = placement if placement is not None else list(range(circ.num_qudits))
        unsorted_pair = any(
            len(op.location) >= 2 and any(
                eff[a] > eff[b] for a in op.location for b in op.location if a < b
            ) for op in circ if not cc.is_placeholder(op.gate)
        ) if circ.num_qudits <= len(eff) else False
        if isinstance(got, str):
            mech = got
        elif got is False and want is True:
            if literal and not want_why:
                mech = 'rejects_compatible:placeholder'
            elif unsorted_pair:
                mech = 'rejects_compatible:unsorted_placed_pair'
            else:
                mech = 'rejects_compatible:other'
        else:
            mech = 'accepts_incompatible:' + sorted({w.split(':')[0] for w in want_why})[0]
        out['w'].append({
            'kind': 'is_compatible:' + mech,
            'circuit': spec, 'model': model, 'placement': placement,
            'placement_kind': pkind, 'corruption': applied, 'source': src,
            'observed': {'is_compatible': got},
            'expected': {'independent_reasons': want_why or 'compatible', 'literal_incl_placeholders': literal},
        })
    return out


def run_corpus(run: core.Run, seed: int, n: int, compiled: list[Any]) -> None:
    items: list[tuple[int, int, Any]] = []
    for i in range(n):
        comp = None
        if compiled and i % 4 == 0:
            comp = compiled[(i // 4) % len(compiled)]
        items.append((seed, i, comp))
    res = core.pmap(corpus_case, items, workers=min(8, cc.default_concurrency() * 2), chunksize=16)
    for it, r in zip(items, res):
        for k, v in r['c'].items():
            run.count(k, v)
        if 'sig' in r:
            run.case(('corpus', seed, it[1]), nontrivial=True)
            run.extra.setdefault('_corpus_kinds', set()).add(tuple(r['sig']))
        for w in r['w']:
            run.violation(w)
    kinds = run.extra.pop('_corpus_kinds', set())
    run.extra['corpus_distinct_kinds'] = len(kinds)
    run.samples.append({'corpus_kinds_sample': sorted(map(list, kinds), key=repr)[:6]})


# ----------------------------------------------------------------------- main
def main(tier: str, seed: int, replay: str | None = None) -> int:
    run = core.Run(PID, tier, seed)
    if replay:
        return do_replay(run, replay)
    if tier == 'quick':
        cases = [make_case(seed, i, t) for i, t in enumerate(QUICK)]
        timeouts = [QUICK_TIMEOUT] * len(cases)
        ncorp = QUICK_CORPUS
    else:
        import time
        if run.deadline is None:
            run.deadline = time.monotonic() + THOROUGH_BUDGET_S
        cases = [make_case(seed, 1000 + i, t) for i, t in enumerate(thorough_templates(seed))]
        timeouts = [
            THOROUGH_TIMEOUT[c['config']['level']] if c['input']['kind'] == 'circuit'
            else min(THOROUGH_TIMEOUT[c['config']['level']], 300.0 if c['model']['n'] <= 2 else 600.0)
            for c in cases
        ]
        ncorp = THOROUGH_CORPUS
    compiled: list[Any] = []

    def on_ok(case: dict[str, Any], res: dict[str, Any]) -> None:
        model = case['model']
        for ob in res['obs']:
            run.count('output_checked')
            run.count('is_compatible_compared')
            run.count('output_of_' + case['input']['kind'])
            if not ob.get('compat_strict'):
                run.count('output_compatible')
            if ob.get('out') and ob['out']['ops'] and ob['out']['ops'][-1][0] != '...':
                names = {o[0] for o in ob['out']['ops']}
                if all(nm in cc.gate_table() for nm in names):
                    compiled.append((ob['out'], model))
        run.count('gateset_' + model['gateset'])
        run.count('graph_' + model['graph'])
        if model['n'] > len(case['input']['radixes']):
            run.count('machine_wider')
        if model['gateset'] in cc.ZX_GATESETS:
            run.count('zx_gateset')

    cc.drive(run, cases, timeouts, cc.judge_c02_output, on_ok)
    run.count('corpus_compiled_outputs_available', len(compiled))
    run_corpus(run, seed, ncorp, compiled)
    for c, m in (
        ('output_checked', 8 if tier == 'quick' else 30),
        ('output_of_circuit', 1), ('output_of_unitary', 1),
        ('output_of_state', 1), ('output_of_system', 1),
        ('corpus_triples', 200), ('corpus_placement_nonmonotone', 10),
        ('corpus_placement_monotone', 10), ('corpus_expected_compatible', 30),
        ('corpus_expected_incompatible', 30), ('corpus_src_compiled', 1),
        ('corpus_corruption_uncoupled_pair', 3), ('corpus_corruption_nonnative_gate', 3),
    ):
        run.require(c, m)
    return run.finish(
        rule='(a) one case = one bqskit.compile(input, model, level) whose returned circuit is checked; distinct = distinct (input, model, level, epsilon); (b) one case = one (circuit, model, placement) triple of the differential corpus; distinct kinds = (source, corruption, placement kind, expected verdict)',
        assumptions=[
            'placeholders (measurement, barrier, reset) are exempt from the gate-set and coupling conditions, as the statement says',
            'is_compatible(c, placement) is compared with: width <= model width, radix of circuit qudit i equals the radix of placement[i], native gates, every multi-qudit operation on pairwise coupled placed qudits (unordered)',
            'a returned circuit narrower than the model is reported under kind output:width (first sentence of the statement) and is not counted against is_compatible',
        ],
    )


def do_replay(run: core.Run, path: str) -> int:
    import json
    with open(path) as f:
        w = json.load(f)['witness']
    if 'case' in w:
        return cc.replay_case(run, path, cc.judge_c02_output)
    circ = cc.build_circuit(w['circuit'])
    model = cc.build_model(w['model'])
    got = bool(model.is_compatible(circ, w['placement']))
    want = not cc.indep_compat(circ, w['model'], w['placement'])
    run.case('replay-triple')
    run.case('replay')
    print('replayed triple: is_compatible=%s independent=%s' % (got, want))
    if got != want:
        run.violation(dict(w))
    return run.finish(rule='replay of one recorded triple', min_distinct=1)


if __name__ == '__main__':
    core.main_entry(main)
