"""C16 — objects shipped between processes arrive equal to what was sent.

Round-trip monitor. Every object kind that crosses a process boundary in the
runtime (Circuit, Operation, gates, CouplingGraph, GateSet, MachineModel,
PassData, Workflow, RuntimeTask, UnitaryMatrix, StateVector, StateSystem) is
sent through the transport's own serialisation path
(`pickle.loads(ForkingPickler.dumps(x))`), through `dill` (what RuntimeTask and
Workflow use), and there-and-back through a real second interpreter, and is
compared with the original through the public API: radixes, cycle-by-cycle
grid, parameters, per-operation gate `==`/`hash`, `x == y`, unitary (refsim),
counters recomputed from the grid, graph edges / weights / remote edges,
gate set, every PassData key, workflow structure and the result of *running*
the reloaded workflow. `copy()` is checked for equality and with an aliasing
probe (mutate one side through the public API, the other side must not
change); `become()` field by field.

Inputs: circuits reached through random editing histories (vlib/rtchk.py) and
an exhaustive family of sparse cycle layouts that appending never produces.
"""
from __future__ import annotations

import copy
import itertools
import json
import os
import subprocess
import sys
import tempfile
import warnings
from typing import Any

import numpy as np

from vlib import core
from vlib import refsim
from vlib import rtchk

PID = 'C16'

# ----------------------------------------------------------------- budgets
#            histories  layouts(cycles)  ops-per-gate  graphs models passdata workflows tasks arrays
COUNTS = {
    'quick': dict(hist=300, hist_steps=(3, 22), layout_cycles=2, layout_sample=160, flexrad=2,
                  graphs=150, models=100, passdata=40, workflows=6, tasks=30, arrays=80, xproc=40),
    'thorough': dict(hist=4000, hist_steps=(3, 40), layout_cycles=3, layout_sample=0, flexrad=4,
                     graphs=2500, models=1500, passdata=500, workflows=36, tasks=400, arrays=1000, xproc=300),
}
WORKERS = min(16, os.cpu_count() or 4)
if os.environ.get('VERIF_WORKERS'):
    WORKERS = int(os.environ['VERIF_WORKERS'])

FLEX_RADIXES = [[2], [2, 2], [3], [2, 3], [3, 3], [2, 2, 2], [4], [3, 2]]


class Out:
    """Per-case result carried back from worker processes."""

    def __init__(self, group: str, seed: int, idx: Any) -> None:
        self.d: dict[str, Any] = {
            'c': {}, 'w': [], 'group': group, 'seed': seed, 'idx': idx,
            'sig': None, 'nontrivial': True, 'sample': None,
        }

    def cnt(self, k: str, v: int = 1) -> None:
        self.d['c'][k] = self.d['c'].get(k, 0) + v

    def bad(self, kind: str, **kw: Any) -> None:
        w = dict(kind=kind, group=self.d['group'], seed=self.d['seed'], idx=self.d['idx'])
        w.update(kw)
        self.d['w'].append(core.jsonable(w))

    def exc(self, kind: str, e: BaseException, **kw: Any) -> None:
        self.bad(
            kind + ':' + type(e).__name__, exc=type(e).__name__, msg=str(e)[:300],
            site=core.raising_site(e), frames=core.repo_frames(e), **kw,
        )


PENDING: list[dict[str, Any]] = []


def viol(w: dict[str, Any]) -> None:
    """Witnesses are collected and reported at the end, one of each kind
    first, so that every mechanism gets a replay file."""
    PENDING.append(w)


def flush(run: core.Run) -> None:
    seen: set[str] = set()
    first, rest = [], []
    for w in PENDING:
        (rest if w.get('kind') in seen else first).append(w)
        seen.add(w.get('kind', '?'))
    for w in first + rest:
        run.violation(w)
    del PENDING[:]


def merge(run: core.Run, r: dict[str, Any]) -> None:
    for k, v in r['c'].items():
        run.count(k, v)
    for w in r['w']:
        viol(w)
    run.case(r['sig'] if r['sig'] is not None else (r['group'], r['idx']), nontrivial=r['nontrivial'], sample=r['sample'])


# ================================================================ circuits
def _receiver(rng: np.random.Generator, like: Any) -> Any:
    """A circuit that differs from `like` in every field (width, radixes,
    operations) to receive `become`."""
    from bqskit.ir.circuit import Circuit
    from bqskit.ir.gates import CZGate, RYGate, TGate
    n = like.num_qudits + 1 + int(rng.integers(0, 2))
    r = Circuit(n, [5] + [2] * (n - 1))
    r.append_gate(TGate(), n - 1)
    r.append_gate(RYGate(), n - 1, [0.3])
    if n >= 3:
        r.append_gate(CZGate(), (n - 2, n - 1))
        r.append_gate(CZGate(), (n - 1, n - 2))
    return r


def circuit_checks(out: Out, c: Any, steps: Any, rng: np.random.Generator, rebuild: Any) -> None:
    """All C16 oracles on one circuit. `rebuild()` returns a fresh, equal,
    independently built instance (replays the history)."""
    from bqskit.ir.circuit import Circuit
    from bqskit.ir.gates import CircuitGate, HGate, RXGate
    desc = {'steps': steps, 'circuit': rtchk.circuit_desc(c)}
    s0 = rtchk.circuit_state(c)
    ux = rtchk.reference_unitary(c)

    def cmp(kind: str, y: Any, unitary: bool = True) -> bool:
        if not isinstance(y, Circuit):
            out.bad(kind + ':type', got=type(y).__name__, **desc)
            return False
        d = rtchk.compare_circuits(c, y, count=out.cnt, ux=ux, unitary=unitary and ux is not None)
        if ux is None:
            out.cnt('unitary_skipped_nonunitary_or_wide')
        p = rtchk.circuit_problems(y)
        if d:
            out.bad(kind + ':' + d[0], diffs=d, result=rtchk.circuit_desc(y), **desc)
        elif p:
            out.bad(kind + ':result_inconsistent:' + p[0], problems=p, result=rtchk.circuit_desc(y), **desc)
        return not d and not p

    # --- transport path and dill
    for name, f in (('fp', rtchk.fp_roundtrip), ('dill', rtchk.dill_roundtrip)):
        try:
            y = f(c)
        except Exception as e:  # noqa
            out.exc('roundtrip_%s:circuit:raised' % name, e, **desc)
            continue
        out.cnt('circuit_roundtrip_' + name)
        cmp('roundtrip_%s:circuit' % name, y)
        if rtchk.circuit_state(c) != s0:
            out.bad('roundtrip_%s:circuit:original_mutated' % name, **desc)
            return
    # twice (an unpickled circuit is sent on)
    try:
        y2 = rtchk.fp_roundtrip(rtchk.fp_roundtrip(c))
        cmp('roundtrip_fp_twice:circuit', y2, unitary=False)
    except Exception as e:  # noqa
        out.exc('roundtrip_fp_twice:circuit:raised', e, **desc)

    # --- operations
    ops = list(c)
    for i in list(rng.permutation(len(ops))[:4]):
        op = ops[int(i)]
        for name, f in (('fp', rtchk.fp_roundtrip), ('dill', rtchk.dill_roundtrip)):
            try:
                o2 = f(op)
                bad = []
                if not (o2 == op) or o2 != op:
                    bad.append('eq')
                if hash(o2) != hash(op):
                    bad.append('hash')
                if tuple(o2.location) != tuple(op.location) or o2.location != op.location:
                    bad.append('location')
                if not rtchk._params_equal(o2.params, op.params) or type(o2.params) is not type(op.params):
                    bad.append('params')
                if o2.radixes != op.radixes or o2.num_params != op.num_params or o2.num_qudits != op.num_qudits:
                    bad.append('shape')
                bad += ['gate.' + z for z in rtchk.compare_gates(op.gate, o2.gate, rng)]
                out.cnt('operation_roundtrip_' + name)
                if bad:
                    out.bad('roundtrip_%s:operation:%s' % (name, bad[0]), diffs=bad, op=repr(op)[:200], **desc)
            except Exception as e:  # noqa
                out.exc('roundtrip_%s:operation:raised' % name, e, op=repr(op)[:200], **desc)

    # --- copy(): equal + aliasing probe
    try:
        y = c.copy()
    except Exception as e:  # noqa
        out.exc('copy:circuit:raised', e, **desc)
        return
    out.cnt('circuit_copy')
    if not cmp('copy:circuit', y):
        return

    def probe(victim: Any, other: Any, direction: str) -> None:
        """Mutate `victim` through the public API; `other` must not move."""
        so = rtchk.circuit_state(other)

        def chk(m: str) -> bool:
            out.cnt('alias_probe:' + m)
            if rtchk.circuit_state(other) != so:
                out.bad('copy:circuit:aliasing:' + m, direction=direction, **desc)
                return False
            return True
        try:
            # parameters of every operation: in-place through op.params
            for cyc, op in list(victim.operations_with_cycles()):
                for j in range(len(op.params)):
                    op.params[j] = float(op.params[j]) + 1.0
            if not chk('op_params_inplace'):
                return
            if victim.num_params:
                victim.set_params([float(x) for x in rng.uniform(-1, 1, victim.num_params)])
                if not chk('set_params'):
                    return
                victim.set_param(int(rng.integers(victim.num_params)), 9.25)
                if not chk('set_param'):
                    return
            # inner circuits of blocks
            blocks = [(cyc, op) for cyc, op in victim.operations_with_cycles() if isinstance(op.gate, CircuitGate)]
            if blocks:
                cyc, op = blocks[int(rng.integers(len(blocks)))]
                victim.unfold((cyc, op.location[0]))
                if not chk('unfold_block'):
                    return
            # structure
            victim.append_gate(HGate(), 0) if victim.radixes[0] == 2 else victim.append_qudit(2)
            if not chk('append'):
                return
            victim.insert_gate(0, RXGate(), victim.num_qudits - 1, [0.5]) if victim.radixes[-1] == 2 else victim.append_qudit(3)
            if not chk('insert'):
                return
            if victim.num_operations:
                victim.pop()
                if not chk('pop'):
                    return
            if victim.num_params:
                victim.freeze_param(0)
                if not chk('freeze_param'):
                    return
            pts = rtchk._occupied_points(victim)
            if pts:
                p = pts[int(rng.integers(len(pts)))]
                loc = list(victim[p].location)
                g = rtchk.build_gate(rtchk.pick_recipe(rng, [victim.radixes[q] for q in loc], 0, allow_nonunitary=False))
                victim.replace_gate(p, g, loc, rtchk.rand_params(rng, g))
                if not chk('replace'):
                    return
            victim.insert_qudit(0, 3)
            if not chk('insert_qudit'):
                return
            if victim.num_qudits > 1:
                victim.pop_qudit(victim.num_qudits - 1)
                if not chk('pop_qudit'):
                    return
            if victim.num_cycles:
                victim.pop_cycle(0)
                if not chk('pop_cycle'):
                    return
            victim.clear()
            chk('clear')
        except Exception as e:  # noqa - an edit failing is C04/C05's subject
            out.cnt('alias_probe_edit_raised')
            out.cnt('alias_probe_edit_raised:' + type(e).__name__)
            chk('after_exception')

    probe(y, c, 'mutate_copy')
    if out.d['w']:
        return
    fresh = rebuild()
    y = fresh.copy()
    probe(fresh, y, 'mutate_original')

    # --- become(): deep, shallow, default
    for deep in (True, False, None):
        r = _receiver(rng, c)
        try:
            if deep is None:
                r.become(c)
            else:
                r.become(c, deep)
        except Exception as e:  # noqa
            out.exc('become:circuit:raised', e, deepcopy=deep, **desc)
            continue
        out.cnt('circuit_become_' + {True: 'deep', False: 'shallow', None: 'default'}[deep])
        d = rtchk.compare_circuits(c, r, count=None, unitary=deep is True and ux is not None, ux=ux)
        p = rtchk.circuit_problems(r)
        if d:
            out.bad('become:circuit:' + d[0], deepcopy=deep, diffs=d, **desc)
        elif p:
            out.bad('become:circuit:result_inconsistent:' + p[0], deepcopy=deep, problems=p, **desc)
    if rtchk.circuit_state(c) != s0:
        out.bad('become:circuit:source_mutated', **desc)


def is_left_justified(c: Any) -> bool:
    """Would appending the operations in iteration order give this grid?"""
    from bqskit.ir.circuit import Circuit
    f = Circuit(c.num_qudits, c.radixes)
    for op in c:
        f.append(op)
    if f.num_cycles != c.num_cycles:
        return False
    a = [[tuple(o.location) for o in r] for r in rtchk.grid_of(c)]
    b = [[tuple(o.location) for o in r] for r in rtchk.grid_of(f)]
    return a == b


def case_history(arg: tuple[int, int, str]) -> dict[str, Any]:
    seed, idx, tier = arg
    out = Out('hist', seed, idx)
    rng = core.rng_for(seed, PID, 1, idx)
    warnings.simplefilter('ignore')
    lo, hi = COUNTS[tier]['hist_steps']
    n = int(rng.choice([1, 2, 3, 3, 4, 4, 5, 6]))
    radixes = [int(x) for x in rng.choice([2, 2, 2, 2, 3, 4], size=n)]
    if rng.random() < 0.5:
        radixes = [2] * n
    nsteps = int(rng.integers(lo, hi + 1))
    stats: dict[str, int] = {}
    try:
        c, steps = rtchk.random_history(rng, radixes, nsteps, nest=int(rng.integers(0, 3)), stats=stats)
    except Exception as e:  # noqa
        out.cnt('harness_generator_error')
        out.d['nontrivial'] = False
        out.d['c']['generator_error:' + type(e).__name__] = 1
        return out.d
    for k, v in stats.items():
        out.cnt('hist_' + k, v)
    if rtchk.circuit_problems(c):
        out.cnt('rejected_input:inconsistent_circuit')
        out.d['nontrivial'] = False
        return out.d
    from bqskit.ir.gates import CircuitGate
    lj = is_left_justified(c)
    out.cnt('input_layout_left_justified' if lj else 'input_layout_not_left_justified')
    cyc = [cy for cy, _ in c.operations_with_cycles()]
    out.cnt('iteration_cycle_monotone' if cyc == sorted(cyc) else 'iteration_not_cycle_monotone')
    if any(not type(g).__module__.startswith('bqskit') for g in c.gate_set):
        out.cnt('input_has_user_gate_dill_branch')
    if any(isinstance(g, CircuitGate) for g in c.gate_set):
        out.cnt('input_has_circuitgate')
    if len(set(c.radixes)) > 1:
        out.cnt('input_mixed_radix')
    circuit_checks(out, c, steps, rng, lambda: rtchk.apply_steps(steps))
    out.d['sig'] = core.sig_of(rtchk.circuit_desc(c, 200))
    out.d['nontrivial'] = c.num_operations >= 2
    if idx < 1:
        out.d['sample'] = {'history': steps[:12], 'circuit': rtchk.circuit_desc(c, 12)}
    return out.d


def _hist2_build(seed: int, idx: int) -> tuple[Any, dict[str, Any]]:
    from vlib import history  # another builder's step-wise model (C04/C05)
    rng = core.rng_for(seed, PID, 12, idx)
    n = int(rng.choice([1, 2, 3, 4, 5]))
    radixes = [int(x) for x in rng.choice([2, 2, 2, 3], size=n)]
    args = dict(
        num_qudits=n, radixes=radixes, n_calls=int(rng.integers(5, 30)),
        qudit_edits=bool(rng.random() < 0.4), blocks=bool(rng.random() < 0.8),
    )
    c = history.random_edited_circuit(rng, **args)
    return c, args


def case_history2(arg: tuple[int, int]) -> dict[str, Any]:
    """Same oracles on circuits from vlib/history.py::random_edited_circuit
    (an independently written history generator), when it is available."""
    seed, idx = arg
    out = Out('hist2', seed, idx)
    warnings.simplefilter('ignore')
    try:
        c, args = _hist2_build(seed, idx)
    except Exception as e:  # noqa - optional source
        out.cnt('hist2_unavailable')
        out.cnt('hist2_unavailable:' + type(e).__name__)
        out.d['nontrivial'] = False
        return out.d
    if rtchk.circuit_problems(c):
        out.cnt('rejected_input:inconsistent_circuit')
        out.d['nontrivial'] = False
        return out.d
    out.cnt('hist2_circuits')
    out.cnt('input_layout_left_justified' if is_left_justified(c) else 'input_layout_not_left_justified')
    steps = {'generator': 'vlib.history.random_edited_circuit', 'rng': [seed, 16, 12, idx], 'args': args}
    circuit_checks(out, c, steps, core.rng_for(seed, PID, 13, idx), lambda: _hist2_build(seed, idx)[0])
    out.d['sig'] = core.sig_of(rtchk.circuit_desc(c, 200))
    out.d['nontrivial'] = c.num_operations >= 2
    return out.d


# ---- exhaustive sparse layouts on 3 qudits -------------------------------
CYCLE_OPTIONS = [
    [(0,)], [(1,)], [(2,)], [(0,), (1,)], [(0,), (2,)], [(1,), (2,)], [(0,), (1,), (2,)],
    [(0, 1)], [(0, 1), (2,)], [(0, 2)], [(0, 2), (1,)], [(1, 2)], [(1, 2), (0,)],
]


def layout_steps(layout: list[list[tuple[int, ...]]], flip: bool) -> list[Any]:
    """History reaching exactly `layout`: a scaffold qudit keeps the cycles
    alive while operations are inserted at their cycles (in reverse cycle
    order, so later cycles are filled before earlier ones); the scaffold
    qudit is then popped."""
    steps: list[Any] = [['init', [2, 2, 2, 2]]]
    T = len(layout)
    for t in range(T):
        steps.append(['append', ['TGate', 0, None], [3], []])
    k = 0
    order = list(range(T))[::-1]
    for t in order:
        for loc in layout[t]:
            k += 1
            if len(loc) == 1:
                steps.append(['insert', t, ['RZGate', 0, None], list(loc), [0.1 * k]])
            else:
                l2 = list(loc)[::-1] if flip else list(loc)
                steps.append(['insert', t, ['RZZGate' if k % 2 else 'CNOTGate', 0, None], l2, [0.1 * k] if k % 2 else []])
    steps.append(['pop_qudit', 3])
    return steps


def case_layout(arg: tuple[int, int, list[int]]) -> dict[str, Any]:
    seed, idx, choice = arg
    out = Out('layout', seed, idx)
    rng = core.rng_for(seed, PID, 2, idx)
    warnings.simplefilter('ignore')
    layout = [CYCLE_OPTIONS[i] for i in choice]
    steps = layout_steps(layout, flip=bool(idx % 2))
    try:
        c = rtchk.apply_steps(steps)
    except Exception as e:  # noqa
        out.cnt('rejected_input:layout_construction_raised:' + type(e).__name__)
        out.d['nontrivial'] = False
        return out.d
    got = [sorted(tuple(sorted(o.location)) for o in r) for r in rtchk.grid_of(c)]
    want = [sorted(tuple(sorted(l)) for l in row) for row in layout]
    if got != want:
        out.cnt('layout_construction_differs')
    if rtchk.circuit_problems(c):
        out.cnt('rejected_input:inconsistent_circuit')
        out.d['nontrivial'] = False
        return out.d
    lj = is_left_justified(c)
    out.cnt('input_layout_left_justified' if lj else 'input_layout_not_left_justified')
    # is the DAG-order iteration cycle-monotone on this input?
    cyc = [cy for cy, _ in c.operations_with_cycles()]
    out.cnt('iteration_cycle_monotone' if cyc == sorted(cyc) else 'iteration_not_cycle_monotone')
    circuit_checks(out, c, steps, rng, lambda: rtchk.apply_steps(steps))
    out.d['sig'] = ('layout', tuple(choice), idx % 2)
    out.d['nontrivial'] = not lj
    if idx == 5:
        out.d['sample'] = {'layout': layout, 'circuit': rtchk.circuit_desc(c, 12)}
    return out.d


# =================================================================== gates
def case_gate(arg: tuple[int, int, list[Any]]) -> dict[str, Any]:
    seed, idx, recipe = arg
    out = Out('gate', seed, idx)
    rng = core.rng_for(seed, PID, 3, idx)
    warnings.simplefilter('ignore')
    from bqskit.ir.circuit import Circuit
    from bqskit.ir.operation import Operation
    out.d['sig'] = ('gate', recipe[0], tuple(recipe[2] or ()))
    try:
        g = rtchk.build_gate(recipe)
    except Exception as e:  # noqa
        out.cnt('rejected_input:gate_construction:' + type(e).__name__)
        out.d['nontrivial'] = False
        return out.d
    desc = {'recipe': recipe, 'gate': g.name[:200], 'gate_type': type(g).__name__}
    if rtchk.gate_expect_identity(g):
        out.cnt('gate_singleton_promised')
    for name, f in (('fp', rtchk.fp_roundtrip), ('dill', rtchk.dill_roundtrip), ('deepcopy', copy.deepcopy), ('copy', copy.copy)):
        try:
            y = f(g)
        except Exception as e:  # noqa
            out.exc('roundtrip_%s:gate:raised' % name, e, **desc)
            continue
        out.cnt('gate_roundtrip_' + name)
        d = rtchk.compare_gates(g, y, rng)
        if d:
            out.bad('roundtrip_%s:gate:%s' % (name, d[0]), diffs=d, **desc)
    # inside an operation and a circuit (Circuit.__reduce__'s gate table)
    try:
        params = rtchk.rand_params(rng, g)
        op = Operation(g, list(range(g.num_qudits)), params)
        c = Circuit(g.num_qudits, g.radixes)
        c.append(op)
        c.append_gate(g, list(range(g.num_qudits))[::-1] if len(set(g.radixes)) == 1 else list(range(g.num_qudits)), rtchk.rand_params(rng, g))
    except Exception as e:  # noqa
        out.cnt('rejected_input:gate_in_circuit:' + type(e).__name__)
        return out.d
    for name, f in (('fp', rtchk.fp_roundtrip), ('dill', rtchk.dill_roundtrip)):
        try:
            y = f(c)
            out.cnt('gate_in_circuit_roundtrip_' + name)
            d = rtchk.compare_circuits(c, y, count=out.cnt)
            if d:
                out.bad('roundtrip_%s:circuit:%s' % (name, d[0]), diffs=d, **desc)
            else:
                g2 = y[0, 0].gate
                d = rtchk.compare_gates(g, g2, rng)
                if d:
                    out.bad('roundtrip_%s:gate_in_circuit:%s' % (name, d[0]), diffs=d, **desc)
        except Exception as e:  # noqa
            out.exc('roundtrip_%s:circuit:raised' % name, e, **desc)
    try:
        y = c.copy()
        d = rtchk.compare_circuits(c, y)
        if d:
            out.bad('copy:circuit:' + d[0], diffs=d, **desc)
        r = Circuit(1)
        r.become(c)
        d = rtchk.compare_circuits(c, r)
        if d:
            out.bad('become:circuit:' + d[0], diffs=d, deepcopy=True, **desc)
    except Exception as e:  # noqa
        out.exc('copy:circuit:raised', e, **desc)
    if idx == 29:
        out.d['sample'] = {'gate_recipe': recipe, 'name': g.name[:80]}
    return out.d


# ========================================================= graphs / models
def rand_graph_spec(rng: np.random.Generator, n: int = 0) -> dict[str, Any]:
    from vlib import gen
    n = n or int(rng.integers(1, 9))
    kind = str(rng.choice(gen.GRAPH_KINDS))
    edges = [list(e) for e in gen.graph_edges(kind, n, rng)]
    if rng.random() < 0.3 and n >= 2:
        # drop an edge: disconnected / sparse graphs too
        edges = edges[:-1]
    edges = [[b, a] if rng.random() < 0.5 else [a, b] for a, b in edges]
    spec: dict[str, Any] = {'n': n, 'edges': edges, 'remote': [], 'dw': 1.0, 'drw': 100.0, 'ov': []}
    if edges and rng.random() < 0.7:
        m = int(rng.integers(1, min(3, len(edges)) + 1))
        spec['remote'] = [edges[int(i)] for i in rng.choice(len(edges), size=m, replace=False)]
    if rng.random() < 0.6:
        spec['dw'] = float(rng.choice([0.5, 2.0, 3.25]))
        spec['drw'] = float(rng.choice([7.0, 50.0, 1000.0]))
    if edges and rng.random() < 0.7:
        m = int(rng.integers(1, min(4, len(edges)) + 1))
        spec['ov'] = [[edges[int(i)], float(rng.uniform(0.1, 9))] for i in rng.choice(len(edges), size=m, replace=False)]
    return spec


def build_graph(spec: dict[str, Any]) -> Any:
    from bqskit.qis.graph import CouplingGraph
    return CouplingGraph(
        [tuple(e) for e in spec['edges']], spec['n'], [tuple(e) for e in spec['remote']],
        spec['dw'], spec['drw'], {tuple(e): w for e, w in spec['ov']},
    )


def rand_gateset_spec(rng: np.random.Generator, radixes: list[int]) -> list[Any]:
    """Recipes of gates whose radixes fit the model's radixes."""
    rs = sorted(set(radixes))
    out = []
    for _ in range(int(rng.integers(1, 6))):
        k = int(rng.integers(1, 3))
        rx = [int(rng.choice(rs)) for _ in range(k)]
        out.append(rtchk.pick_recipe(rng, rx, 1, p_flex=0.25, allow_nonunitary=False))
    return out


def case_graph(arg: tuple[int, int]) -> dict[str, Any]:
    seed, idx = arg
    out = Out('graph', seed, idx)
    rng = core.rng_for(seed, PID, 4, idx)
    spec = rand_graph_spec(rng)
    try:
        g = build_graph(spec)
    except Exception as e:  # noqa
        out.cnt('rejected_input:graph:' + type(e).__name__)
        out.d['nontrivial'] = False
        return out.d
    if spec['remote']:
        out.cnt('graph_with_remote_edges')
    if spec['ov']:
        out.cnt('graph_with_weight_overrides')
    from bqskit.qis.graph import CouplingGraph
    for name, f in (
        ('fp', rtchk.fp_roundtrip), ('dill', rtchk.dill_roundtrip), ('deepcopy', copy.deepcopy),
        ('rewrap', lambda x: rtchk.fp_roundtrip(CouplingGraph(x))),
    ):
        try:
            y = f(g)
        except Exception as e:  # noqa
            out.exc('roundtrip_%s:graph:raised' % name, e, spec=spec)
            continue
        out.cnt('graph_roundtrip_' + name)
        d = rtchk.compare_graphs(g, y)
        if d:
            out.bad('roundtrip_%s:graph:%s' % (name, d[0]), diffs=d, spec=spec)
    out.d['sig'] = ('graph', core.sig_of(spec))
    out.d['nontrivial'] = len(spec['edges']) >= 1
    if idx == 3:
        out.d['sample'] = {'graph': spec}
    return out.d


def rand_model_spec(rng: np.random.Generator, n: int = 0) -> dict[str, Any]:
    n = n or int(rng.integers(1, 8))
    radixes = [int(x) for x in rng.choice([2, 2, 2, 3, 4], size=n)] if rng.random() < 0.5 else [2] * n
    spec: dict[str, Any] = {'n': n, 'radixes': radixes if rng.random() < 0.8 else [], 'graph': None, 'gates': None}
    if rng.random() < 0.85:
        spec['graph'] = rand_graph_spec(rng, n)
    if rng.random() < 0.85:
        spec['gates'] = rand_gateset_spec(rng, radixes if spec['radixes'] else [2])
    return spec


def build_model(spec: dict[str, Any]) -> Any:
    from bqskit.compiler.machine import MachineModel
    g = build_graph(spec['graph']) if spec['graph'] is not None else None
    gs = [rtchk.build_gate(r) for r in spec['gates']] if spec['gates'] is not None else None
    return MachineModel(spec['n'], g, gs, spec['radixes'])


def case_model(arg: tuple[int, int]) -> dict[str, Any]:
    seed, idx = arg
    out = Out('model', seed, idx)
    rng = core.rng_for(seed, PID, 5, idx)
    warnings.simplefilter('ignore')
    spec = rand_model_spec(rng)
    try:
        m = build_model(spec)
    except Exception as e:  # noqa
        out.cnt('rejected_input:model:' + type(e).__name__)
        out.d['nontrivial'] = False
        return out.d
    if spec['graph'] and spec['graph']['remote']:
        out.cnt('model_with_remote_edges')
    if spec['gates'] is not None:
        out.cnt('model_with_custom_gateset')
    if len(set(m.radixes)) > 1:
        out.cnt('model_mixed_radix')
    for name, f in (('fp', rtchk.fp_roundtrip), ('dill', rtchk.dill_roundtrip), ('deepcopy', copy.deepcopy)):
        try:
            y = f(m)
        except Exception as e:  # noqa
            out.exc('roundtrip_%s:model:raised' % name, e, spec=spec)
            continue
        out.cnt('model_roundtrip_' + name)
        d = rtchk.compare_models(m, y)
        if d:
            out.bad('roundtrip_%s:model:%s' % (name, d[0]), diffs=d, spec=spec)
        try:
            y2 = f(m.gate_set)
            d = rtchk.compare_gatesets(m.gate_set, y2)
            out.cnt('gateset_roundtrip_' + name)
            if d:
                out.bad('roundtrip_%s:gateset:%s' % (name, d[0]), diffs=d, spec=spec)
        except Exception as e:  # noqa
            out.exc('roundtrip_%s:gateset:raised' % name, e, spec=spec)
    if hasattr(m, 'copy'):
        out.cnt('model_copy_method_present')
    out.d['sig'] = ('model', core.sig_of(spec))
    if idx == 1:
        out.d['sample'] = {'model': spec}
    return out.d


# ================================================================ PassData
def rand_passdata_spec(rng: np.random.Generator) -> dict[str, Any]:
    n = int(rng.integers(1, 6))
    radixes = [2] * n if rng.random() < 0.6 else [int(x) for x in rng.choice([2, 3], size=n)]
    nm = n + int(rng.integers(0, 3))
    mspec = rand_model_spec(rng, nm)
    mspec['radixes'] = radixes + [2] * (nm - n)
    if mspec['gates'] is not None:
        mspec['gates'] = rand_gateset_spec(rng, mspec['radixes'])
    return {
        'radixes': radixes,
        'circ_seed': int(rng.integers(1 << 30)),
        'target': str(rng.choice(['unitary', 'state', 'system', 'lazy_circuit'])),
        'target_seed': int(rng.integers(1 << 30)),
        'error': float(rng.uniform(0.001, 0.5)),
        'model': mspec,
        'placement': [int(x) for x in rng.permutation(nm)[:n]],
        'initial_mapping': [int(x) for x in rng.permutation(nm)[:n]],
        'final_mapping': [int(x) for x in rng.permutation(nm)[:n]],
        'seed': int(rng.integers(1, 1 << 20)),
        'via_machine_model_key': bool(rng.random() < 0.5),
        'user_seed': int(rng.integers(1 << 30)),
    }


def build_passdata(spec: dict[str, Any]) -> Any:
    from bqskit.compiler.passdata import PassData
    from bqskit.ir.operation import Operation
    from bqskit.ir.gates import CNOTGate, U3Gate
    from bqskit.qis.state.state import StateVector
    from bqskit.qis.state.system import StateSystem
    from bqskit.qis.unitary.unitarymatrix import UnitaryMatrix
    radixes = spec['radixes']
    n = len(radixes)
    rng = np.random.default_rng(spec['circ_seed'])
    circ, _ = rtchk.random_history(rng, radixes, 6, nest=1, fixed_width=True, nonunitary=False)
    d = PassData(circ)
    trng = np.random.default_rng(spec['target_seed'])
    dim = refsim.dim_of(radixes)
    if spec['target'] == 'unitary':
        d.target = UnitaryMatrix(rtchk.haar(trng, dim), radixes, check_arguments=False)
    elif spec['target'] == 'state':
        d.target = StateVector(rtchk.haar(trng, dim)[:, 0], radixes)
    elif spec['target'] == 'system':
        u, v = rtchk.haar(trng, dim), rtchk.haar(trng, dim)
        k = max(1, dim // 2)
        d.target = StateSystem({StateVector(u[:, i], radixes): StateVector(v[:, i], radixes) for i in range(k)})
    else:
        d._target = circ  # what PassData.__init__ stores for wide circuits (lazy evaluation)
    d.error = spec['error']
    m = build_model(spec['model'])
    if spec['via_machine_model_key']:
        d['machine_model'] = m
    else:
        d.model = m
    d.placement = spec['placement']
    d['initial_mapping'] = spec['initial_mapping']
    d.final_mapping = spec['final_mapping']
    d.seed = spec['seed']
    urng = np.random.default_rng(spec['user_seed'])
    sub, _ = rtchk.random_history(urng, radixes, 5, nest=1, fixed_width=True, nonunitary=False)
    d['user_circuit'] = sub
    d['user_array'] = urng.normal(size=(3, 4))
    d['user_carray'] = urng.normal(size=5) + 1j * urng.normal(size=5)
    d['user_list'] = [1, 2.5, 'x', [3, [4, 5]], {'k': [6]}]
    d['user_dict'] = {'a': {'b': [1, 2, 3], 'c': sub.copy()}, 'n': None, 't': (1, 2)}
    d['user_callable'] = rtchk.user_callable
    d['user_pred'] = rtchk.less_ops
    d['user_op'] = Operation(U3Gate(), 0, [0.1, 0.2, 0.3]) if radixes[0] == 2 else Operation(CNOTGate(), (0, 1))
    d['user_tuple'] = (1, (2, 3), 'y')
    d['user_set'] = {1, 2, 'z'}
    d['user_unitary'] = UnitaryMatrix(rtchk.haar(urng, 2), [2], check_arguments=False)
    d['ForEachBlockPass_data'] = [[{'subnumbering': {0: 1, 1: 0}, 'model': build_model(spec['model']), 'point': (0, 1), 'error': 0.25}]]
    d['user_gate'] = U3Gate()
    d['user_model'] = m
    return d


def _other_passdata(spec: dict[str, Any]) -> Any:
    """A receiver that differs from build_passdata(spec) in every field."""
    from bqskit.compiler.machine import MachineModel
    from bqskit.compiler.passdata import PassData
    from bqskit.ir.circuit import Circuit
    from bqskit.ir.gates import CZGate, RZGate, SXGate
    from bqskit.qis.unitary.unitarymatrix import UnitaryMatrix
    n = len(spec['radixes'])
    c = Circuit(n, spec['radixes'])
    r = PassData(c)
    r.error = 0.9
    nm = spec['model']['n']
    r.model = MachineModel(nm + 2, [(i, i + 1) for i in range(nm + 1)], {CZGate(), RZGate(), SXGate()})
    r.placement = [nm + 1 - i for i in range(n)]
    r.initial_mapping = [nm + 1 - i for i in range(n)]
    r.final_mapping = [nm + 1 - i for i in range(n)]
    r.seed = 99
    r['receiver_only'] = 'stale'
    r['user_list'] = ['stale']
    return r


def case_passdata(arg: tuple[int, int]) -> dict[str, Any]:
    seed, idx = arg
    out = Out('passdata', seed, idx)
    rng = core.rng_for(seed, PID, 6, idx)
    warnings.simplefilter('ignore')
    from bqskit.compiler.gateset import GateSet
    from bqskit.compiler.passdata import PassData
    from bqskit.ir.gates import HGate, TGate
    from bqskit.qis.graph import CouplingGraph
    spec = rand_passdata_spec(rng)
    out.d['sig'] = ('passdata', core.sig_of(spec))
    try:
        d = build_passdata(spec)
    except Exception as e:  # noqa
        out.cnt('rejected_input:passdata:' + type(e).__name__)
        out.cnt('rejected_input:passdata')
        out.d['nontrivial'] = False
        out.d['c']['msg:' + str(e)[:60]] = 1
        return out.d
    missing = [k for k in rtchk.RESERVED_EXPECTED if k not in PassData._reserved_keys]
    extra = [k for k in PassData._reserved_keys if k not in rtchk.RESERVED_EXPECTED]
    if missing or extra:
        out.cnt('reserved_keys_changed')  # the spec sets only the known ones
    out.cnt('passdata_reserved_keys_set', len(PassData._reserved_keys))
    out.cnt('passdata_target_' + spec['target'])
    s0 = rtchk.passdata_state(d) if spec['target'] != 'lazy_circuit' else None

    def root(f: str) -> str:
        f = f.split(':', 1)[1] if ':' in f else f
        return f.split(':')[0]

    def report(kind: str, diffs: list[str], **kw: Any) -> None:
        for fld in sorted(set(root(x) for x in diffs)):
            out.bad('%s:%s' % (kind, fld), diffs=diffs, spec=spec, **kw)

    for name, f in (('fp', rtchk.fp_roundtrip), ('dill', rtchk.dill_roundtrip)):
        try:
            src = build_passdata(spec) if spec['target'] == 'lazy_circuit' else d
            y = f(src)
        except Exception as e:  # noqa
            out.exc('roundtrip_%s:passdata:raised' % name, e, spec=spec)
            continue
        out.cnt('passdata_roundtrip_' + name)
        diffs = rtchk.compare_passdata(src, y)
        if diffs:
            report('roundtrip_%s:passdata' % name, diffs)

    # copy(): equal + aliasing probe, both directions
    def mutate(v: Any) -> list[str]:
        done = []
        v.placement.append(77)
        v.placement[0] = 55
        done.append('placement')
        v.initial_mapping[0] = 56
        v.final_mapping.reverse()
        v.final_mapping.append(57)
        done.append('mappings')
        v['user_list'].append('new')
        v['user_list'][3][1].append(6)
        v['user_list'][4]['k'].append(7)
        done.append('user_list')
        v['user_dict']['a']['b'].append(4)
        v['user_dict']['z'] = 1
        done.append('user_dict')
        v['user_array'][0, 0] += 1.0
        v['user_carray'][1] = 5j
        done.append('user_array')
        uc = v['user_circuit']
        if uc.num_params:
            uc.set_params([0.5] * uc.num_params)
        uc.append_qudit(3)
        v['user_dict']['a']['c'].clear()
        done.append('user_circuit')
        v['user_set'].add('w')
        v['user_op'].params = [9.0] * v['user_op'].num_params
        v['ForEachBlockPass_data'][0][0]['subnumbering'][5] = 5
        v['ForEachBlockPass_data'][0][0]['model'].gate_set = GateSet({TGate()})
        v['ForEachBlockPass_data'].append([])
        done.append('block_data')
        v.gate_set = GateSet({HGate()})
        v.model.coupling_graph = CouplingGraph([(0, 1)], v.model.num_qudits) if v.model.num_qudits >= 2 else CouplingGraph([], 1)
        v.model.radixes = tuple([7] * v.model.num_qudits)
        done.append('model')
        v['user_model'].gate_set = GateSet({TGate()})
        v.error = 0.75
        v.seed = 5
        v['new_key'] = 1
        del v['user_tuple']
        done.append('scalars')
        return done

    if True:
        for direction in ('mutate_copy', 'mutate_original'):
            src = build_passdata(spec)
            try:
                y = src.copy()
            except Exception as e:  # noqa
                out.exc('copy:passdata:raised', e, spec=spec)
                break
            out.cnt('passdata_copy')
            diffs = rtchk.compare_passdata(src, y)
            if diffs:
                report('copy:passdata', diffs)
                break
            victim, other = (y, src) if direction == 'mutate_copy' else (src, y)
            so = rtchk.passdata_state(other)
            try:
                done = mutate(victim)
            except Exception as e:  # noqa
                out.exc('harness:passdata_mutation_failed', e, spec=spec)
                break
            out.cnt('passdata_alias_probe')
            out.cnt('passdata_alias_mutations', len(done))
            sn = rtchk.passdata_state(other)
            if sn != so:
                moved = [a[0] for a, b in zip(so, sn) if a != b]
                for fld in moved or ['?']:
                    out.bad('copy:passdata:aliasing:' + str(fld), direction=direction, moved=moved, spec=spec)
        if s0 is not None and rtchk.passdata_state(d) != s0:
            out.bad('copy:passdata:source_mutated', spec=spec)

    # become(): every field equals the source's
    src = build_passdata(spec)
    for deep in (True, False, None):
        r = _other_passdata(spec)
        try:
            if deep is None:
                r.become(src)
            else:
                r.become(src, deep)
        except Exception as e:  # noqa
            out.exc('become:passdata:raised', e, deepcopy=deep, spec=spec)
            continue
        out.cnt('passdata_become_' + {True: 'deep', False: 'shallow', None: 'default'}[deep])
        diffs = rtchk.compare_passdata(src, r)
        if diffs:
            report('become:passdata', diffs, deepcopy=deep)
    if idx == 0:
        out.d['sample'] = {'passdata_spec': spec}
    return out.d


# ================================================================== arrays
def case_array(arg: tuple[int, int]) -> dict[str, Any]:
    seed, idx = arg
    out = Out('array', seed, idx)
    rng = core.rng_for(seed, PID, 7, idx)
    from bqskit.qis.state.state import StateVector
    from bqskit.qis.state.system import StateSystem
    from bqskit.qis.unitary.unitarymatrix import UnitaryMatrix
    n = int(rng.integers(1, 4))
    radixes = [int(x) for x in rng.choice([2, 2, 3, 4], size=n)]
    dim = refsim.dim_of(radixes)
    u, v = rtchk.haar(rng, dim), rtchk.haar(rng, dim)
    k = int(rng.integers(1, dim + 1))
    objs = {
        'unitary': UnitaryMatrix(u, radixes, check_arguments=False),
        'state': StateVector(u[:, 0], radixes),
        'system': StateSystem({StateVector(u[:, i], radixes): StateVector(v[:, i], radixes) for i in range(k)}),
    }
    spec = {'radixes': radixes, 'k': k}
    for what, x in objs.items():
        for name, f in (('fp', rtchk.fp_roundtrip), ('dill', rtchk.dill_roundtrip), ('deepcopy', copy.deepcopy)):
            try:
                y = f(x)
            except Exception as e:  # noqa
                out.exc('roundtrip_%s:%s:raised' % (name, what), e, spec=spec)
                continue
            out.cnt('%s_roundtrip_%s' % (what, name))
            bad = []
            if type(y) is not type(x):
                bad.append('type')
            elif what == 'system':
                bad += rtchk.compare_systems(x, y)
            else:
                if tuple(x.radixes) != tuple(y.radixes) or x.dim != y.dim or x.num_qudits != y.num_qudits:
                    bad.append('radixes')
                if not np.array_equal(x.numpy, y.numpy) or x.numpy.dtype != y.numpy.dtype:
                    bad.append('values')
                if not (x == y) or hash(x) != hash(y):
                    bad.append('eq_hash')
            if bad:
                out.bad('roundtrip_%s:%s:%s' % (name, what, bad[0]), diffs=bad, spec=spec)
    out.d['sig'] = ('array', tuple(radixes), k, idx)
    return out.d


# ==================================================================== tasks
async def coro_body(circuit: Any, data: Any, scale: int = 1) -> int:
    return circuit.num_operations * scale


def case_task(arg: tuple[int, int]) -> dict[str, Any]:
    seed, idx = arg
    out = Out('task', seed, idx)
    rng = core.rng_for(seed, PID, 8, idx)
    warnings.simplefilter('ignore')
    import logging
    from bqskit.runtime.address import RuntimeAddress
    from bqskit.runtime.task import RuntimeTask
    n = int(rng.integers(1, 5))
    radixes = [int(x) for x in rng.choice([2, 2, 3], size=n)]
    c, steps = rtchk.random_history(rng, radixes, int(rng.integers(2, 12)), nest=1)
    data = None
    if idx % 3 == 0:
        try:
            data = build_passdata(rand_passdata_spec(rng))
        except Exception:  # noqa
            data = None
    wf = build_workflow(rand_workflow_spec(rng, 1)) if idx % 2 == 0 else None
    fn = [rtchk.less_ops, coro_body, rtchk.user_callable][int(rng.integers(3))]
    args = (c, data) if fn is coro_body else ((c, c.copy()) if fn is rtchk.less_ops else (int(rng.integers(100)),))
    kwargs: dict[str, Any] = {'scale': 3} if fn is coro_body else {}
    payload_extra = {'wf': wf, 'arr': rng.normal(size=4), 'circs': [c, c.copy()]}
    fnargs = (fn, args, kwargs)
    addr = RuntimeAddress(int(rng.integers(10)), int(rng.integers(100)), int(rng.integers(5)))
    crumbs = tuple(RuntimeAddress(int(rng.integers(10)), int(rng.integers(100)), int(rng.integers(5))) for _ in range(int(rng.integers(0, 4))))
    t = RuntimeTask(
        fnargs, addr, int(rng.integers(1000)), crumbs,
        int(rng.choice([0, logging.DEBUG, logging.INFO, logging.WARNING])),
        int(rng.integers(-1, 4)), None if rng.random() < 0.5 else 'named-task',
        {'ctx': 'v%d' % idx} if rng.random() < 0.6 else {},
    )
    t.owned_mailboxes = [int(x) for x in rng.integers(0, 50, size=int(rng.integers(0, 3)))]
    t.desired_box_id = None if rng.random() < 0.5 else int(rng.integers(50))
    t.wake_on_next = bool(rng.random() < 0.3)
    touched = bool(rng.random() < 0.4)
    if touched:
        _ = t.fnargs  # populate the lazy cache, as a worker that peeked would
    desc = {'steps': steps, 'fn': fn.__name__, 'touched': touched}
    fields = (
        'task_id', 'serialized_fnargs', '_name', 'return_address', 'logging_level', 'comp_task_id',
        'breadcrumbs', 'max_logging_depth', 'desired_box_id', 'owned_mailboxes', 'wake_on_next',
        'log_context', 'msg_buffer', 'coro', 'unique_id',
    )
    for name, f in (('fp', rtchk.fp_roundtrip), ('dill', rtchk.dill_roundtrip)):
        try:
            y = f(t)
        except Exception as e:  # noqa
            out.exc('roundtrip_%s:task:raised' % name, e, **desc)
            continue
        out.cnt('task_roundtrip_' + name)
        bad = [k for k in fields if not rtchk._deep_equal(getattr(t, k), getattr(y, k, '<missing>'))]
        if str(t) != str(y) or repr(t) != repr(y):
            bad.append('str')
        for a in crumbs + (addr,):
            if t.is_descendant_of(a) != y.is_descendant_of(a):
                bad.append('is_descendant_of')
        try:
            fa, fb = t.fnargs, y.fnargs
            if fa[0] is not fb[0]:
                bad.append('fnargs.function')
            if not rtchk._deep_equal(fa[1], fb[1]):
                bad.append('fnargs.args')
            if not rtchk._deep_equal(fa[2], fb[2]):
                bad.append('fnargs.kwargs')
            if isinstance(fb[1][0], type(c)):
                d = rtchk.compare_circuits(c, fb[1][0], count=out.cnt)
                if d:
                    bad.append('fnargs.circuit.' + d[0])
                out.cnt('task_arg_circuit_compared')
        except Exception as e:  # noqa
            out.exc('roundtrip_%s:task:fnargs_raised' % name, e, **desc)
        if bad:
            out.bad('roundtrip_%s:task:%s' % (name, bad[0]), diffs=bad, **desc)
    # the payload the runtime really builds: dill of (fn, args, kwargs) holding circuits / data / workflow
    try:
        import dill
        big = (fn, (c, data, wf, payload_extra), {'k': c})
        back = dill.loads(dill.dumps(big))
        out.cnt('task_payload_dill')
        if back[0] is not fn:
            out.bad('roundtrip_dill:task_payload:function', **desc)
        if not rtchk._deep_equal(back[1][0], c) or not rtchk._deep_equal(back[2]['k'], c):
            out.bad('roundtrip_dill:task_payload:circuit', **desc)
        if data is not None:
            d = rtchk.compare_passdata(data, back[1][1])
            d = [x for x in d]
            if d:
                out.bad('roundtrip_dill:task_payload:passdata:' + d[0], diffs=d, **desc)
        if wf is not None and rtchk.workflow_view(wf) != rtchk.workflow_view(back[1][2]):
            out.bad('roundtrip_dill:task_payload:workflow', **desc)
        if not rtchk._deep_equal(back[1][3]['circs'], payload_extra['circs']) or not np.array_equal(back[1][3]['arr'], payload_extra['arr']):
            out.bad('roundtrip_dill:task_payload:containers', **desc)
    except Exception as e:  # noqa
        out.exc('roundtrip_dill:task_payload:raised', e, **desc)
    out.d['sig'] = ('task', core.sig_of(rtchk.circuit_desc(c, 100)), fn.__name__, touched)
    if idx == 0:
        out.d['sample'] = {'task': {'fn': fn.__name__, 'circuit': rtchk.circuit_desc(c, 8)}}
    return out.d


# ================================================================ workflows
CONTROL_TYPES = (
    'IfThenElsePass', 'WhileLoopPass', 'DoWhileLoopPass', 'DoThenDecide',
    'ParallelDo', 'ForEachBlockPass', 'Workflow',
)


def rand_workflow_spec(rng: np.random.Generator, depth: int, runnable: bool = True) -> list[Any]:
    """Nested JSON-able description of a workflow that contains every
    control pass when depth >= 2."""
    def leaf() -> list[Any]:
        r = int(rng.integers(5))
        if r == 0:
            return ['pop', int(rng.integers(0, 4)), 'l%d' % int(rng.integers(100))]
        if r == 1:
            return ['appendgate', str(rng.choice(['HGate', 'TGate', 'RZGate', 'CNOTGate', 'U3Gate'])), int(rng.integers(1 << 20))]
        if r == 2:
            return ['trace', 't%d' % int(rng.integers(100)), bool(rng.random() < 0.5)]
        if r == 3:
            return ['unfold']
        return ['compress']

    def pred() -> list[Any]:
        r = int(rng.integers(5))
        if r == 0:
            return ['ops_above', int(rng.integers(0, 8))]
        if r == 1:
            return ['not', ['ops_above', int(rng.integers(0, 8))]]
        if r == 2:
            return ['width', int(rng.integers(1, 6))]
        if r == 3:
            return ['change']
        return ['count', str(rng.choice(['sq', 'mq', 'all']))]

    def body(d: int, k: int = 0) -> list[Any]:
        k = k or int(rng.integers(1, 4))
        return [node(d) for _ in range(k)]

    def node(d: int) -> list[Any]:
        if d <= 0:
            return leaf()
        r = str(rng.choice(list(CONTROL_TYPES) + ['leaf']))
        return make(r, d)

    def make(r: str, d: int) -> list[Any]:
        if r == 'leaf':
            return leaf()
        if r == 'IfThenElsePass':
            return ['if', pred(), body(d - 1), body(d - 1) if rng.random() < 0.7 else None]
        if r == 'WhileLoopPass':
            # bodies of loops strictly shrink the circuit so that they end
            return ['while', ['ops_above', int(rng.integers(1, 6))], [['pop', 0, 'w']] + body(0, 1) if False else [['pop', 0, 'w']]]
        if r == 'DoWhileLoopPass':
            return ['dowhile', ['ops_above', int(rng.integers(1, 6))], [['pop', 0, 'dw'], ['trace', 'dw', False]]]
        if r == 'DoThenDecide':
            return ['decide', str(rng.choice(['pred_fewer_ops', 'pred_always', 'pred_never'])), body(d - 1)]
        if r == 'ParallelDo':
            return ['parallel', [body(d - 1) for _ in range(int(rng.integers(1, 4)))], str(rng.choice(['less_ops', 'less_cycles'])), False]
        if r == 'ForEachBlockPass':
            return [
                'foreach', body(d - 1), bool(rng.random() < 0.5),
                str(rng.choice(['none', 'keep_multi_qudit'])),
                str(rng.choice(['always', 'less-than', 'fn:replace_if_fewer'])),
            ]
        return ['workflow', body(d - 1), str(rng.choice(['', 'inner', 'named-%d' % int(rng.integers(10))]))]

    top = []
    if depth >= 2:
        kinds = list(CONTROL_TYPES)
        rng.shuffle(kinds)
        for k in kinds:
            top.append(make(k, depth))
    else:
        top = body(depth, int(rng.integers(1, 4)))
    top.insert(0, ['trace', 'start', True])
    return ['workflow', top, str(rng.choice(['outer', 'job-%d' % int(rng.integers(100))]))]


def build_workflow(spec: list[Any]) -> Any:
    import bqskit.ir.gates as G
    from bqskit.compiler.workflow import Workflow
    from bqskit.passes import CompressPass
    from bqskit.passes import DoThenDecide
    from bqskit.passes import DoWhileLoopPass
    from bqskit.passes import ForEachBlockPass
    from bqskit.passes import IfThenElsePass
    from bqskit.passes import ParallelDo
    from bqskit.passes import QuickPartitioner
    from bqskit.passes import UnfoldPass
    from bqskit.passes import WhileLoopPass
    from bqskit.passes.control import ChangePredicate
    from bqskit.passes.control import GateCountPredicate
    from bqskit.passes.control import NotPredicate
    from bqskit.passes.control import WidthPredicate

    def pred(p: list[Any]) -> Any:
        if p[0] == 'ops_above':
            return rtchk.OpsAbovePredicate(p[1])
        if p[0] == 'not':
            return NotPredicate(pred(p[1]))
        if p[0] == 'width':
            return WidthPredicate(p[1])
        if p[0] == 'change':
            return ChangePredicate()
        if p[0] == 'count':
            return GateCountPredicate({'sq': G.HGate(), 'mq': G.CNOTGate(), 'all': [G.HGate(), G.CNOTGate()]}[p[1]])
        raise ValueError(p)

    def passes(b: list[Any]) -> list[Any]:
        out = []
        for x in b:
            out.extend(node(x))
        return out

    def node(s: list[Any]) -> list[Any]:
        k = s[0]
        if k == 'pop':
            return [rtchk.PopLastPass(s[1], s[2])]
        if k == 'appendgate':
            g = getattr(G, s[1])()
            r = np.random.default_rng(s[2])
            return [rtchk.AppendGatePass(g, tuple(range(g.num_qudits)), [float(x) for x in r.uniform(-3, 3, g.num_params)])]
        if k == 'trace':
            return [rtchk.TracePass(s[1], rtchk.user_callable if s[2] else None)]
        if k == 'unfold':
            return [UnfoldPass()]
        if k == 'compress':
            return [CompressPass()]
        if k == 'if':
            return [IfThenElsePass(pred(s[1]), passes(s[2]), passes(s[3]) if s[3] is not None else None)]
        if k == 'while':
            return [WhileLoopPass(pred(s[1]), passes(s[2]))]
        if k == 'dowhile':
            return [DoWhileLoopPass(pred(s[1]), passes(s[2]))]
        if k == 'decide':
            return [DoThenDecide(getattr(rtchk, s[1]), passes(s[2]))]
        if k == 'parallel':
            return [ParallelDo([passes(b) for b in s[1]], getattr(rtchk, s[2]), s[3])]
        if k == 'foreach':
            cf = None if s[3] == 'none' else getattr(rtchk, s[3])
            rf = getattr(rtchk, s[4][3:]) if s[4].startswith('fn:') else s[4]
            return [QuickPartitioner(2), ForEachBlockPass(passes(s[1]), s[2], cf, rf), UnfoldPass()]
        if k == 'workflow':
            return [Workflow(passes(s[1]), s[2])]
        raise ValueError(k)
    return node(spec)[0]


def workflow_structure_case(run: core.Run, seed: int, idx: int, depth: int) -> tuple[Any, Any, list[Any]]:
    rng = core.rng_for(seed, PID, 9, idx)
    spec = rand_workflow_spec(rng, depth)
    wf = build_workflow(spec)
    v0 = rtchk.workflow_view(wf)
    types = set(rtchk.flatten_types(v0))
    for t in CONTROL_TYPES:
        if t in types:
            run.count('workflow_contains_' + t)
    reloaded = []

    def save_load(w: Any) -> Any:
        with tempfile.NamedTemporaryFile(prefix='pickle-c16-', suffix='.wf', dir='/tmp') as f:
            w.save(f.name)
            return type(w).load(f.name)

    def in_task(w: Any) -> Any:
        from bqskit.compiler.task import CompilationTask
        from bqskit.ir.circuit import Circuit
        t = CompilationTask(Circuit(1), w)
        t2 = rtchk.fp_roundtrip(t)
        if t2.task_id != t.task_id or t2.request_data != t.request_data or t2.logging_level != t.logging_level \
                or t2.max_logging_depth != t.max_logging_depth or t2.done != t.done:
            viol({'kind': 'roundtrip_fp:compilation_task:fields', 'seed': seed, 'idx': idx, 'spec': spec})
        return t2.workflow
    for name, f in (
        ('fp', rtchk.fp_roundtrip), ('dill', rtchk.dill_roundtrip), ('save_load', save_load),
        ('deepcopy', copy.deepcopy), ('compilation_task', in_task),
        ('fp_twice', lambda w: rtchk.fp_roundtrip(rtchk.fp_roundtrip(w))),
    ):
        try:
            y = f(wf)
        except Exception as e:  # noqa
            viol({
                'kind': 'roundtrip_%s:workflow:raised:%s' % (name, type(e).__name__), 'exc': type(e).__name__,
                'msg': str(e)[:300], 'site': core.raising_site(e), 'frames': core.repo_frames(e),
                'seed': seed, 'idx': idx, 'group': 'workflow', 'spec': spec,
            })
            continue
        run.count('workflow_roundtrip_' + name)
        v1 = rtchk.workflow_view(y)
        if v1 != v0:
            path = first_diff(v0, v1)
            viol({
                'kind': 'roundtrip_%s:workflow:structure:%s' % (name, path.split('/')[-1] if path else '?'),
                'path': path, 'seed': seed, 'idx': idx, 'group': 'workflow', 'spec': spec,
            })
        elif name in ('fp', 'dill'):
            reloaded.append((name, y))
    return wf, spec, reloaded


def first_diff(a: Any, b: Any, path: str = '') -> str:
    if type(a) is not type(b):
        return path + '/<type>'
    if isinstance(a, dict):
        for k in a:
            if k not in b:
                return path + '/' + str(k) + '/<missing>'
            d = first_diff(a[k], b[k], path + '/' + str(k))
            if d:
                return d
        for k in b:
            if k not in a:
                return path + '/' + str(k) + '/<extra>'
        return ''
    if isinstance(a, list):
        if len(a) != len(b):
            return path + '/<len>'
        for i, (x, y) in enumerate(zip(a, b)):
            d = first_diff(x, y, path + '/%d' % i)
            if d:
                return d
        return ''
    return '' if a == b else path


def workflow_cases(run: core.Run, seed: int, n: int) -> None:
    """Structure round trips (in process) and behaviour: running the
    reloaded workflow gives the same circuit and data as the original."""
    from vlib import compiledrv
    warnings.simplefilter('ignore')
    jobs = []
    for idx in range(n):
        depth = 2 if idx % 3 else 3
        try:
            wf, spec, reloaded = workflow_structure_case(run, seed, idx, depth)
        except Exception as e:  # noqa
            run.count('harness_workflow_build_error')
            run.count('harness_workflow_build_error:' + type(e).__name__ + ':' + str(e)[:60])
            continue
        run.case(('workflow', core.sig_of(spec)), nontrivial=True, sample={'workflow_spec': spec} if idx == 0 else None)
        jobs.append((idx, wf, spec, reloaded))
    if not jobs:
        return
    env_pp = os.pathsep.join([p for p in (os.environ.get('PYTHONPATH', ''), core.ROOT) if p])
    nw = 4

    def fresh() -> Any:
        return compiledrv.new_compiler(nw, env={'PYTHONPATH': env_pp})
    try:
        comp = fresh()
    except Exception as e:  # noqa
        run.inconclusive_because('could not start a compiler: %s' % type(e).__name__)
        return
    # one flat list of (job index, variant name, workflow); everything is
    # submitted at once so that the server's workers run them side by side
    flat = []
    circuits = {}
    for idx, wf, spec, reloaded in jobs:
        rng = core.rng_for(seed, PID, 10, idx)
        circuits[idx] = rtchk._small_circuit(rng, [2, 2, 2] if idx % 2 else [2, 2, 2, 2], depth=int(rng.integers(6, 14)), nest=1)
        for name, w in [('original', wf)] + reloaded:
            flat.append((idx, name, w))
    outcomes: dict[tuple[int, str], Any] = {}
    try:
        pending = list(flat)
        while pending:
            try:
                ids = [(k, comp.submit(circuits[k[0]], k[2], request_data=True)) for k in pending]
            except Exception as e:  # noqa
                run.inconclusive_because('compiler submit failed: %s' % type(e).__name__)
                return
            failed_at = None
            for pos, (k, tid) in enumerate(ids):
                try:
                    outcomes[(k[0], k[1])] = ('ok', comp.result(tid))
                except Exception as e:  # noqa - the compiler is closed after an error
                    outcomes[(k[0], k[1])] = ('exc', e)
                    failed_at = pos
                    break
            if failed_at is None:
                break
            pending = pending[failed_at + 1:]
            try:
                comp.close()
            except Exception:  # noqa
                pass
            comp = fresh()
    finally:
        try:
            comp.close()
        except Exception:  # noqa
            pass
    spec_of = {idx: spec for idx, _, spec, _ in jobs}
    for idx, wf, spec, reloaded in jobs:
        c = circuits[idx]
        o = outcomes.get((idx, 'original'))
        if o is None:
            continue
        if o[0] == 'exc':
            run.count('rejected_input:workflow_run_original_raised')
            run.count('rejected_input:workflow_run_original_raised:' + type(o[1]).__name__)
            continue
        run.count('workflow_run_original')
        c0, d0 = o[1]
        if d0.get('trace'):
            run.count('workflow_run_nontrivial_trace')
        for name, _ in reloaded:
            r = outcomes.get((idx, name))
            if r is None:
                continue
            base = {'seed': seed, 'idx': idx, 'group': 'workflow', 'spec': spec, 'circuit': rtchk.circuit_desc(c)}
            if r[0] == 'exc':
                e = r[1]
                msg = str(e).strip().splitlines()[-1][:300] if str(e).strip() else ''
                viol(dict(base, kind='roundtrip_%s:workflow:run_raised:%s' % (name, type(e).__name__), exc=type(e).__name__, msg=msg))
                continue
            run.count('workflow_run_reloaded')
            c1, d1 = r[1]
            d = rtchk.compare_circuits(c0, c1, layout=True, unitary=False)
            if d:
                viol(dict(base, kind='roundtrip_%s:workflow:run_result_differs:%s' % (name, d[0]), diffs=d))
            dd = rtchk.compare_passdata(d0, d1)
            if dd:
                viol(dict(base, kind='roundtrip_%s:workflow:run_data_differs:%s' % (name, dd[0]), diffs=dd))
            run.count('workflow_run_compared')


# ========================================================= second process
CHILD = r'''
import sys, pickle, json, warnings
warnings.simplefilter('ignore')
sys.path.insert(0, %r)
from multiprocessing.reduction import ForkingPickler
from vlib import rtchk
import props.c16 as c16
items = pickle.load(open(sys.argv[1], 'rb'))
out = []
for kind, spec, blob in items:
    rec = {'ok': True}
    try:
        obj = pickle.loads(blob)
        # an equal object built locally in this interpreter
        if kind == 'gate':
            local = rtchk.build_gate(spec)
            rec['eq_local'] = bool(obj == local and local == obj)
            rec['hash_local'] = hash(obj) == hash(local)
            rec['in_set'] = obj in {local}
            rec['identity'] = (obj is local) if rtchk.gate_expect_identity(local) else None
        elif kind == 'circuit':
            local = rtchk.apply_steps(spec)
            rec['diff_local'] = rtchk.compare_circuits(local, obj, unitary=False)
            rec['problems'] = rtchk.circuit_problems(obj)
            rec['counts_lookup'] = all(local.count(g) == n for g, n in obj.gate_counts.items())
        elif kind == 'model':
            local = c16.build_model(spec)
            rec['diff_local'] = rtchk.compare_models(local, obj)
        elif kind == 'passdata':
            local = c16.build_passdata(spec)
            rec['diff_local'] = rtchk.compare_passdata(local, obj)
        elif kind == 'workflow':
            local = c16.build_workflow(spec)
            rec['diff_local'] = [] if rtchk.workflow_view(local) == rtchk.workflow_view(obj) else [c16.first_diff(rtchk.workflow_view(local), rtchk.workflow_view(obj))]
        rec['blob'] = bytes(ForkingPickler.dumps(obj))
    except Exception as e:
        import traceback
        rec = {'ok': False, 'exc': type(e).__name__, 'msg': str(e)[:300], 'tb': traceback.format_exc()[-600:]}
    out.append(rec)
pickle.dump(out, open(sys.argv[2], 'wb'))
'''


def cross_process(run: core.Run, seed: int, n: int) -> None:
    """Ship objects to a freshly started interpreter (different hash seed),
    compare there with locally built equals, ship back, compare here."""
    from multiprocessing.reduction import ForkingPickler
    import pickle
    warnings.simplefilter('ignore')
    items = []
    originals = []
    rng = core.rng_for(seed, PID, 11)
    keys = rtchk.catalogue_keys()
    for k in keys:
        r = [k, int(rng.integers(1 << 30)), None]
        items.append(('gate', r))
    for k in rtchk.flex_keys():
        for rx in FLEX_RADIXES[:3]:
            items.append(('gate', [k, int(rng.integers(1 << 30)), rx, 2]))
    for i in range(n):
        r2 = core.rng_for(seed, PID, 11, i)
        nq = int(r2.integers(1, 5))
        rx = [int(x) for x in r2.choice([2, 2, 3], size=nq)]
        try:
            _, steps = rtchk.random_history(r2, rx, int(r2.integers(3, 16)), nest=1)
        except Exception as e:  # noqa - could not even build the input
            run.count('rejected_input:xproc_generator_raised:' + type(e).__name__)
            continue
        items.append(('circuit', steps))
        if i % 3 == 0:
            items.append(('model', rand_model_spec(r2)))
        if i % 4 == 0:
            items.append(('passdata', rand_passdata_spec(r2)))
        if i % 5 == 0:
            items.append(('workflow', rand_workflow_spec(r2, 2)))
    payload = []
    for kind, spec in items:
        try:
            if kind == 'gate':
                obj = rtchk.build_gate(spec)
            elif kind == 'circuit':
                obj = rtchk.apply_steps(spec)
            elif kind == 'model':
                obj = build_model(spec)
            elif kind == 'passdata':
                obj = build_passdata(spec)
            else:
                obj = build_workflow(spec)
            payload.append((kind, spec, bytes(ForkingPickler.dumps(obj))))
            originals.append(obj)
        except Exception as e:  # noqa
            run.count('rejected_input:xproc_build:' + kind + ':' + type(e).__name__)
    d = tempfile.mkdtemp(prefix='pickle-c16-')
    fin, fout = os.path.join(d, 'in.pkl'), os.path.join(d, 'out.pkl')
    try:
        with open(fin, 'wb') as f:
            pickle.dump(payload, f)
        env = dict(os.environ)
        hs = 1 + seed % 3
        env['PYTHONHASHSEED'] = str(hs + 1 if os.environ.get('PYTHONHASHSEED') == str(hs) else hs)
        env['PYTHONPATH'] = os.pathsep.join([p for p in (os.environ.get('PYTHONPATH', ''), core.ROOT) if p])
        try:
            p = subprocess.run(
                [sys.executable, '-c', CHILD % core.ROOT, fin, fout], env=env, timeout=900,
                capture_output=True, text=True,
            )
        except subprocess.TimeoutExpired:
            run.inconclusive_because('second interpreter timed out')
            return
        if p.returncode != 0 or not os.path.exists(fout):
            run.inconclusive_because('second interpreter failed: ' + (p.stderr or '')[-300:].replace('\n', ' | '))
            return
        with open(fout, 'rb') as f:
            recs = pickle.load(f)
    finally:
        for fn in (fin, fout):
            if os.path.exists(fn):
                os.remove(fn)
        os.rmdir(d)
    for (kind, spec, _), obj, rec in zip(payload, originals, recs):
        run.count('xproc_' + kind)
        run.case(('xproc', kind, core.sig_of(spec)), nontrivial=True)
        base = {'group': 'xproc', 'seed': seed, 'object': kind, 'spec': spec}
        if not rec['ok']:
            viol(dict(base, kind='xproc:%s:raised_in_receiver:%s' % (kind, rec['exc']), exc=rec['exc'], msg=rec['msg'], tb=rec['tb']))
            continue
        if kind == 'gate':
            bad = [k for k in ('eq_local', 'hash_local', 'in_set') if not rec[k]]
            if rec['identity'] is False:
                bad.append('singleton_identity')
            if rec['identity'] is True:
                run.count('xproc_singleton_identity_held')
            if bad:
                viol(dict(base, kind='xproc:gate:%s' % bad[0], diffs=bad))
        else:
            if rec.get('diff_local'):
                viol(dict(base, kind='xproc:%s:%s' % (kind, rec['diff_local'][0]), diffs=rec['diff_local']))
            if rec.get('problems'):
                viol(dict(base, kind='xproc:circuit:result_inconsistent:' + rec['problems'][0]))
            if rec.get('counts_lookup') is False:
                viol(dict(base, kind='xproc:circuit:gate_lookup_in_receiver'))
        try:
            back = pickle.loads(rec['blob'])
        except Exception as e:  # noqa
            viol(dict(base, kind='xproc:%s:return_raised:%s' % (kind, type(e).__name__), msg=str(e)[:200]))
            continue
        if kind == 'gate':
            d2 = rtchk.compare_gates(obj, back, rng)
        elif kind == 'circuit':
            d2 = rtchk.compare_circuits(obj, back) + rtchk.circuit_problems(back)
        elif kind == 'model':
            d2 = rtchk.compare_models(obj, back)
        elif kind == 'passdata':
            d2 = rtchk.compare_passdata(obj, back)
        else:
            d2 = [] if rtchk.workflow_view(obj) == rtchk.workflow_view(back) else ['structure']
        run.count('xproc_there_and_back')
        if d2:
            viol(dict(base, kind='xproc_back:%s:%s' % (kind, d2[0]), diffs=d2))


# ==================================================================== main
GROUPS = {
    'hist': case_history, 'hist2': case_history2, 'layout': case_layout, 'gate': case_gate, 'graph': case_graph,
    'model': case_model, 'passdata': case_passdata, 'array': case_array, 'task': case_task,
}


def gate_items(seed: int, tier: str) -> list[Any]:
    items = []
    i = 0
    for k in rtchk.catalogue_keys():
        items.append((seed, i, [k, 1000 + i, None]))
        i += 1
    for k in rtchk.flex_keys():
        for rx in FLEX_RADIXES[:COUNTS[tier]['flexrad'] * 2]:
            items.append((seed, i, [k, 1000 + i, rx, 2]))
            i += 1
    return items


def layout_items(seed: int, tier: str) -> list[Any]:
    T = COUNTS[tier]['layout_cycles']
    items = []
    idx = 0
    for t in range(1, T + 1):
        for ch in itertools.product(range(len(CYCLE_OPTIONS)), repeat=t):
            items.append((seed, idx, list(ch)))
            idx += 1
    ns = COUNTS[tier]['layout_sample']
    if ns:
        rng = core.rng_for(seed, PID, 2)
        for _ in range(ns):
            items.append((seed, idx, [int(x) for x in rng.integers(len(CYCLE_OPTIONS), size=int(rng.integers(3, 5)))]))
            idx += 1
    return items


def _dispatch(a: tuple[str, Any]) -> dict[str, Any]:
    g, arg = a
    try:
        return GROUPS[g](arg)
    except Exception as e:  # noqa - the harness itself failed on this case
        import traceback
        return {
            'c': {'harness_case_error': 1, 'harness_case_error:%s:%s' % (g, type(e).__name__): 1}, 'w': [],
            'group': g, 'seed': 0, 'idx': -1, 'sig': None, 'nontrivial': False,
            'sample': None, 'tb': traceback.format_exc()[-800:],
        }


def main(tier: str, seed: int, replay: str | None = None) -> int:
    run = core.Run(PID, tier, seed)
    run.max_samples = 10
    warnings.simplefilter('ignore')
    if replay:
        return do_replay(run, replay)
    K = COUNTS[tier]
    rtchk._init_catalogue()
    work: list[tuple[str, Any]] = []
    work += [('hist', (seed, i, tier)) for i in range(K['hist'])]
    work += [('hist2', (seed, i)) for i in range(K['hist'] // 4)]
    work += [('layout', it) for it in layout_items(seed, tier)]
    work += [('gate', it) for it in gate_items(seed, tier)]
    work += [('graph', (seed, i)) for i in range(K['graphs'])]
    work += [('model', (seed, i)) for i in range(K['models'])]
    work += [('passdata', (seed, i)) for i in range(K['passdata'])]
    work += [('array', (seed, i)) for i in range(K['arrays'])]
    work += [('task', (seed, i)) for i in range(K['tasks'])]
    only = os.environ.get('VERIF_C16_ONLY')  # development aid: restrict the groups
    if only:
        work = [w for w in work if w[0] in only.split(',')]
    # interleave expensive and cheap cases over the pool
    order = list(core.rng_for(seed, PID, 0).permutation(len(work)))
    shuffled = [work[int(i)] for i in order]
    res = core.pmap(_dispatch, shuffled, workers=WORKERS, chunksize=4)
    back = [None] * len(work)
    for pos, r in zip(order, res):
        back[int(pos)] = r
    tb_shown = 0
    for r in back:
        merge(run, r)  # type: ignore
        if r.get('tb') and tb_shown < 3:  # type: ignore
            print(r['tb'], file=sys.stderr)  # type: ignore
            tb_shown += 1
    if run.counters.get('harness_case_error', 0):
        run.inconclusive_because('%d cases crashed inside the harness' % run.counters['harness_case_error'])

    for name, phase in (('workflow', workflow_cases), ('xproc', cross_process)):
        if only and name not in only:
            continue
        try:
            phase(run, seed, K['workflows' if name == 'workflow' else 'xproc'])
        except Exception as e:  # noqa - never let the harness masquerade as a verdict
            import traceback
            traceback.print_exc()
            run.inconclusive_because('phase %s crashed in the harness: %s at %s' % (name, type(e).__name__, core.raising_site(e)))

    for c, m in (
        ('circuit_roundtrip_fp', 50), ('circuit_roundtrip_dill', 50), ('circuit_copy', 50),
        ('circuit_become_deep', 50), ('circuit_become_shallow', 50),
        ('input_layout_not_left_justified', 30), ('input_has_circuitgate', 10), ('input_mixed_radix', 10),
        ('alias_probe:op_params_inplace', 50), ('alias_probe:unfold_block', 5), ('alias_probe:append', 50),
        ('unitary_compared', 50), ('operation_roundtrip_fp', 50),
        ('gate_roundtrip_fp', 100), ('gate_roundtrip_dill', 100), ('gate_singleton_promised', 40),
        ('gate_in_circuit_roundtrip_fp', 100),
        ('graph_roundtrip_fp', 20), ('graph_with_remote_edges', 10), ('graph_with_weight_overrides', 10),
        ('model_roundtrip_fp', 20), ('model_with_custom_gateset', 10), ('gateset_roundtrip_fp', 20),
        ('passdata_roundtrip_fp', 10), ('passdata_copy', 10), ('passdata_alias_probe', 10),
        ('passdata_become_deep', 10), ('passdata_become_shallow', 10),
        ('unitary_roundtrip_fp', 10), ('state_roundtrip_fp', 10), ('system_roundtrip_fp', 10),
        ('task_roundtrip_fp', 10), ('task_payload_dill', 10),
        ('workflow_roundtrip_fp', 3), ('workflow_roundtrip_dill', 3), ('workflow_run_compared', 3),
        ('xproc_there_and_back', 50), ('xproc_singleton_identity_held', 20),
    ):
        run.require(c, m)
    for t in CONTROL_TYPES:
        run.require('workflow_contains_' + t, 1)
    flush(run)
    return run.finish(
        rule='distinct = distinct final circuit (grid, gates, params) of an editing history / distinct sparse layout / '
             'distinct gate recipe / graph, model, PassData, workflow, task spec; non-trivial = history circuit has >= 2 '
             'operations, layout is one that appending cannot produce, graph has an edge',
        assumptions=[
            'equality is judged through the public API listed in vlib/rtchk.py (compare_*), parameters and matrices bit-exactly',
            'circuits whose views already disagree before serialisation (idle cycle, DAG != grid: property C05) are not C16 inputs; '
            'history steps the circuit rejects are rolled back',
            'renumber_qudits is not part of the histories (separate known defect)',
            'the singleton promise is taken from utils/cachedclass.py: identity is required only where constructing the class '
            'again with the recorded arguments returns the same object',
            'inner parameters stored inside a CircuitGate are scratch state (overwritten by unfold); sharing immutable gates is allowed',
            'hash equality is required within one interpreter and against a locally built equal object in the receiving interpreter',
        ],
        extra={
            'exhaustive': False,
            'exhaustive_subspace': 'all cycle layouts of <=%d cycles on 3 qubits made of 1- and 2-qudit operations (built with a scaffold qudit); '
                                   'every name in bqskit.ir.gates.__all__ that can be constructed' % K['layout_cycles'],
        },
    )


def do_replay(run: core.Run, path: str) -> int:
    w = json.load(open(path))['witness']
    g = w.get('group')
    seed = int(w.get('seed', run.seed))
    rtchk._init_catalogue()
    if g in ('hist', 'layout') and isinstance(w.get('steps'), list):
        # the materialised history is replayed call by call
        out = Out(g, seed, w.get('idx'))
        c = rtchk.apply_steps(w['steps'])
        circuit_checks(
            out, c, w['steps'], core.rng_for(seed, PID, 1 if g == 'hist' else 2, int(w.get('idx') or 0)),
            lambda: rtchk.apply_steps(w['steps']),
        )
        r = out.d
    elif g in GROUPS:
        tier = run.tier
        if g == 'hist':
            arg: Any = (seed, int(w['idx']), tier)
        elif g == 'gate':
            arg = (seed, int(w['idx']), w['recipe'])
        else:
            arg = (seed, int(w['idx']))
        r = GROUPS[g](arg)
    elif g == 'workflow':
        workflow_cases(run, seed, int(w['idx']) + 1)
        flush(run)
        return run.finish(rule='replay of workflow cases 0..idx', min_distinct=1)
    elif g == 'xproc':
        cross_process(run, seed, COUNTS[run.tier]['xproc'])
        flush(run)
        return run.finish(rule='replay of the cross-process batch', min_distinct=1)
    else:
        print('cannot replay witness of group %r' % g)
        return 2
    merge(run, r)
    kinds = sorted(set(x['kind'] for x in r['w']))
    print('replayed %s case: %d witnesses %s (recorded kind: %s)' % (g, len(r['w']), kinds, w.get('kind')))
    flush(run)
    return run.finish(rule='replay of one recorded case', min_distinct=0)


if __name__ == '__main__':
    core.main_entry(main)
