"""C10 - every circuit-rewriting pass preserves its target within its stated
tolerance and establishes its advertised postcondition.

Runtime monitor over a *pass catalogue* (vlib/passcat.py): for every rewriting
pass shipped in bqskit.passes (plus the unexported CZToCNOTPass and
ExtractDiagonalPass from the anchored packages) a seeded domain generator and
the constructor options that change behaviour. Each case is run through a real
attached Compiler (`compile(circuit, [pass], request_data=True)`, model / seed
supplied through `data=`), and judged by

  * the independent simulator: cost1(U_before, U_after) <= floor for rule /
    structural / analytic passes, <= max(floor, (k+1)^2 * success_threshold)
    for numerical ones (k = accepted approximations; 1 for passes that compare
    the whole circuit with PassData.target at every acceptance), the mapped
    relation with the recorded initial/final mapping for
    PermutationAwareSynthesisPass;
  * per-pass advertised postconditions (source gate gone, introduced gates in
    the requested set, no gate-count increase for removal passes, filters
    respected, block sizes, conversions, surrounding single-qudit gates, ...).

A pass exported by bqskit.passes that is neither in the catalogue nor in
passcat.NOT_REWRITING makes the run INCONCLUSIVE.

Case counts live in the catalogue entries (Entry.quick / Entry.thorough);
SCALE below multiplies them.
"""
from __future__ import annotations

import json
import os
from collections import Counter
from typing import Any

from vlib import core
from vlib import passcat

PID = 'C10'

# tier -> multiplier on Entry.quick / Entry.thorough (tuning knob)
SCALE = {'quick': 1.0, 'thorough': 0.5}
MIN_CASES_PER_ENTRY = 5
# entries whose documented algorithm is an unbounded search / retry loop: a
# watchdog expiry there is "search not finished" (case not evaluated), not an
# infrastructure problem; the entry still needs MIN_CASES_PER_ENTRY verdicts.
UNBOUNDED_SEARCH = {
    'QPredictDecompositionPass', 'QFASTDecompositionPass', 'QSearchSynthesisPass',
    'LEAPSynthesisPass', 'PermutationAwareSynthesisPass', 'Rebase2QuditGatePass',
    'AutoRebase2QuditGatePass',
}


def n_procs() -> int:
    try:
        return max(1, int(os.environ['VERIF_PROCS']))
    except (KeyError, ValueError):
        return min(14, os.cpu_count() or 4)


def plan_batches(tier: str, seed: int, only: list[str] | None = None) -> list[tuple[int, str, list[tuple[str, int]]]]:
    items: list[tuple[float, str, int]] = []
    for name, e in passcat.CATALOGUE.items():
        if only and name not in only:
            continue
        scale = SCALE.get(tier, 1.0)
        try:
            scale *= float(os.environ.get('C10_SCALE', '1'))
        except ValueError:
            pass
        n = int(round((e.quick if tier == 'quick' else e.thorough) * scale))
        n = max(MIN_CASES_PER_ENTRY, n)
        for i in range(n):
            items.append((e.weight, name, i))
    w = n_procs()
    # longest-processing-time-first assignment on the estimated weights
    items.sort(key=lambda x: (-x[0], x[1], x[2]))
    bins: list[list[tuple[str, int]]] = [[] for _ in range(w)]
    load = [0.0] * w
    for wt, name, i in items:
        b = load.index(min(load))
        bins[b].append((name, i))
        load[b] += wt
    # inside a batch run the cheap cases first: an early verdict on most of
    # the catalogue even if a search-type case runs long
    out = []
    for b in bins:
        if b:
            b.sort(key=lambda x: (passcat.CATALOGUE[x[0]].weight, x[0], x[1]))
            out.append((seed, tier, b))
    return out


def absorb(run: core.Run, r: dict[str, Any], per_entry: dict[str, Counter]) -> None:
    name = r['entry']
    st = r['status']
    pe = per_entry.setdefault(name, Counter())
    pe[st] += 1
    pe['wall_ms'] += int(1000 * r.get('wall', 0))
    for k, v in r.get('counters', {}).items():
        run.count(k, v)
    if st == 'harness_error':
        run.count('harness_error')
        run.inconclusive_because('harness error in %s case %s: %s' % (name, r.get('ident'), str(r.get('error'))[:300]))
        return
    if st == 'timeout':
        run.count('watchdog_timeout:' + name)
        if name not in UNBOUNDED_SEARCH:
            run.inconclusive_because('watchdog expired in %s case %s' % (name, r.get('ident')))
        return
    decided = st in ('ok', 'raised')
    run.case(
        r['sig'], nontrivial=bool(r.get('changed')) and st == 'ok',
        sample=r.get('sample') if (r.get('changed') and pe['sampled'] < 1 and len(run.samples) < run.max_samples) else None,
    )
    if r.get('changed') and r.get('sample') is not None:
        pe['sampled'] += 1
    if decided:
        pe['decided'] += 1
        run.count('cases_decided')
    if st == 'ok':
        run.count('pass_completed')
        if r.get('changed'):
            pe['changed'] += 1
    for w in r.get('witnesses', []):
        run.violation(w)


def main(tier: str, seed: int, replay: str | None = None) -> int:
    run = core.Run(PID, tier, seed)
    run.max_violation_files = 40
    if replay:
        return do_replay(run, replay)
    missing = passcat.uncovered()
    for n in missing:
        run.inconclusive_because(
            'pass %s is exported by bqskit.passes but is neither in the C10 catalogue nor in NOT_REWRITING' % n,
        )
    for n in passcat.unscanned_rewriters():
        run.inconclusive_because('rewriting pass %s under rules/retarget/processing has no catalogue entry' % n)
    only = [x for x in os.environ.get('C10_ONLY', '').split(',') if x] or None
    batches = plan_batches(tier, seed, only)
    results = core.pmap(passcat.run_batch, batches, workers=len(batches))
    per_entry: dict[str, Counter] = {}
    for b in results:
        for r in b:
            absorb(run, r, per_entry)
    table = {}
    for name in passcat.CATALOGUE:
        if only and name not in only:
            continue
        pe = per_entry.get(name, Counter())
        table[name] = {k: int(v) for k, v in pe.items() if k != 'sampled'}
        run.count('entries_exercised', 1 if pe['decided'] else 0)
        if pe['decided'] < MIN_CASES_PER_ENTRY:
            run.inconclusive_because(
                'catalogue entry %s reached a verdict on only %d cases (< %d)' % (name, pe['decided'], MIN_CASES_PER_ENTRY),
            )
    for c in ('unitary_compare:exact', 'unitary_compare:numerical', 'postcondition_checks', 'circuit_changed'):
        if not only:
            run.require(c, 20)
    if not only:
        run.require('mapped_compare', 3)
        run.require('mapped_nontrivial', 1)
        run.require('entries_exercised', len(passcat.CATALOGUE))
    return run.finish(
        rule='one case = (catalogue entry, constructor options, generated circuit) run through a real Compiler; '
             'distinct = distinct (entry, options, circuit); non-trivial = the pass completed and changed the circuit '
             '(structure, layout or parameters)',
        assumptions=[
            'gate matrices come from each operation\'s own get_unitary (their correctness is C18)',
            'numerical passes: budget max(1e-10*(ops+1), (k+1)^2*success_threshold); k=1 for passes that compare the whole '
            'circuit with PassData.target at every acceptance, number of removed operations / extraction steps otherwise',
            'WalshDiagonalSynthesisPass: exact up to its own parameter_precision ((2^n*precision)^2)',
            'inputs violating a documented precondition are only required not to be silently mangled: a documented '
            'exception is counted as rejected_input',
            'collection_filter respect is treated as an advertised postcondition (passcat.FILTER_IS_POSTCONDITION)',
            'watchdog expiry in unbounded-search passes = case not evaluated (counted), elsewhere = inconclusive',
            'the in-situ pass monitor of DESIGN 2.4 is not part of this check (catalogue-driven cases only)',
        ],
        extra={
            'catalogue': table,
            'not_rewriting': len(passcat.NOT_REWRITING),
            'processes': len(batches),
        },
    )


def do_replay(run: core.Run, path: str) -> int:
    from vlib.compiledrv import new_compiler
    w = json.load(open(path))['witness']
    entry = passcat.CATALOGUE[w['entry']]
    circuit = passcat.unpickle_b64(w['circuit_pickle_b64'])
    opts = w['opts']
    state: dict[str, Any] = {'c': None}

    def get() -> Any:
        if state['c'] is None:
            state['c'] = new_compiler(1, env={'PYTHONPATH': os.pathsep.join(
                [core.ROOT] + ([os.environ['PYTHONPATH']] if os.environ.get('PYTHONPATH') else []))})
        return state['c']

    def drop() -> None:
        c, state['c'] = state['c'], None
        if c is not None:
            try:
                c.close()
            except Exception:
                pass
    try:
        ident = dict(w.get('ident') or {})
        os.environ['VERIF_TIMEOUT_SCALE'] = str(4 * float(os.environ.get('VERIF_TIMEOUT_SCALE', '1')))
        r = passcat.run_case(get, drop, entry, circuit, opts, ident)
    finally:
        drop()
    print('replay of %s: status=%s cost1=%s budget=%s' % (w['kind'], r['status'], r.get('cost'), r.get('budget')))
    for x in r['witnesses']:
        print('  reproduced: %s' % x['kind'])
    per_entry: dict[str, Counter] = {}
    absorb(run, r, per_entry)
    run.case(('replay', path))
    run.case(('replay2', path))
    return run.finish(rule='replay of one recorded case', min_distinct=1)
