"""C18 — every library gate obeys the gate contract for all parameters.

Runtime monitor over every concrete class exported by `bqskit.ir.gates`
(constructor recipes in vlib/gaterecipes.py; a class without a recipe makes
the run INCONCLUSIVE). For each construction and parameter vector the real
`get_unitary / get_grad / get_unitary_and_grad / get_inverse(+params) /
calc_params / optimize / == / hash` are observed and decided by independent
oracles:

  advertised   dim / radixes / num_qudits / num_params vs the returned matrix
  unitary      ||U^dag U - 1||_max <= 1e-10
  grad_fd      4th-order central differences of get_unitary
  uag          get_unitary_and_grad agrees with get_unitary and get_grad
  inverse      get_inverse().get_unitary(get_inverse_params(p)) @ U(p) = 1
  calc_params  U(calc_params(U(p))) = U(p)   (global phase counted apart)
  optimize     Re tr(env U(opt)) >= 200 random vectors and a local maximiser
  algebra:*    composed gates = numpy algebra of their parts
  eq_hash      same construction twice: ==, equal hash, cached singleton;
               any two gates that compare == hash equally
  qiskit       same-name qiskit.circuit.library matrices (bit order reversed)
  expr_vs_hand expression backend vs hand-written matrix / gradient
  reference    closed forms from the docstrings / relations between gates
"""
from __future__ import annotations

import json
import os
import warnings
import zlib
from typing import Any

import numpy as np

from vlib import core
from vlib import gaterecipes as R
from vlib import refsim

PID = 'C18'

# ---- budgets (tune here) ---------------------------------------------------
#  variants : constructor variants asked from a class recipe with a random
#             argument space (composed gates, CircuitGate, ...)
#  generic  : generic parameter vectors per construction (on top of zeros,
#             k*pi/2, +-large, large exact, mixed); no-arg parameterised
#             classes get generic_noarg instead (they have one construction)
#  envs     : environment matrices per locally optimisable construction
BUDGET = {
    'quick': dict(variants=48, generic=6, generic_noarg=60, envs=2, nrandom=200, pairs=400),
    'thorough': dict(variants=700, generic=14, generic_noarg=3000, envs=4, nrandom=200, pairs=4000),
}
VARIANTS_SCALE = {'CircuitGate': 0.75}
# classes whose variants are spread over several work items
CHUNKED = set(R.COMPOSED) | {'CircuitGate', 'ArbitraryCPhaseGate', 'MPRYGate', 'MPRZGate'}
CHUNKS = {'quick': 4, 'thorough': 16}

TOL_U = 1e-10          # unitarity, DESIGN C18
TOL_EQ = 1e-9          # two evaluations of the same matrix
FD_H = 2.0 ** -13
MAX_W_PER_KEY = 2      # witnesses kept per (kind, gate_class, leaf) and class item


def crc(s: str) -> int:
    return zlib.crc32(s.encode()) & 0x7fffffff


def maxabs(a: np.ndarray) -> float:
    a = np.asarray(a)
    return float(np.max(np.abs(a))) if a.size else 0.0


def small(m: np.ndarray) -> Any:
    m = np.asarray(m)
    if m.size <= 36:
        return [[[round(float(z.real), 9), round(float(z.imag), 9)] for z in row] for row in np.atleast_2d(m)]
    return {'shape': list(m.shape)}


class Out:
    """Per work item: counters, witnesses, cases."""

    def __init__(self, item: str) -> None:
        self.item = item
        self.c: dict[str, int] = {}
        self.w: list[dict[str, Any]] = []
        self.cases: list[tuple[str, bool]] = []
        self.samples: list[Any] = []
        self.seen_keys: dict[tuple, int] = {}
        self.harness: list[str] = []
        self.ctx: dict[str, Any] = {}

    def cnt(self, k: str, n: int = 1) -> None:
        self.c[k] = self.c.get(k, 0) + n

    def bad(self, kind: str, spec: dict[str, Any], **kw: Any) -> None:
        gate_class = spec.get('cls') or spec.get('export')
        leaf = '+'.join(sorted(set(R.leaves(spec))))
        key = (kind, gate_class, leaf, kw.get('exc'), kw.get('site'))
        n = self.seen_keys.get(key, 0)
        self.seen_keys[key] = n + 1
        self.cnt('violations_observed')
        if n >= MAX_W_PER_KEY:
            self.cnt('duplicate_witnesses_not_stored')
            return
        w = dict(
            kind=kind, gate_class=gate_class, leaf=leaf,
            wrappers='>'.join(R.wrappers(spec)), item=self.item, spec=spec,
        )
        w.update(self.ctx)
        w.update(kw)
        # core.jsonable flattens deep nesting: keep exact copies for replay
        w['spec_json'] = json.dumps(spec)
        if 'spec_b' in w:
            w['spec_b_json'] = json.dumps(w['spec_b'])
        self.w.append(w)

    def raised(self, what: str, spec: dict[str, Any], e: BaseException, **kw: Any) -> None:
        self.bad(
            what + ':raised', spec, exc=type(e).__name__, msg=str(e)[:300],
            site=core.raising_site(e), frames=core.repo_frames(e)[-6:], **kw,
        )

    def dump(self) -> dict[str, Any]:
        return dict(c=self.c, w=self.w, cases=self.cases, samples=self.samples, harness=self.harness)


# ------------------------------------------------------------ definitions
def fd_grad(gate: Any, params: list[float], h: float = FD_H) -> np.ndarray:
    """4th-order central differences of get_unitary."""
    n = len(params)
    d = gate.dim
    out = np.zeros((n, d, d), dtype=np.complex128)
    for i in range(n):
        def f(t: float) -> np.ndarray:
            q = list(params)
            q[i] = params[i] + t
            return np.asarray(gate.get_unitary(q), dtype=np.complex128)
        out[i] = (-f(2 * h) + 8 * f(h) - 8 * f(-h) + f(-2 * h)) / (12 * h)
    return out


def digits_to_index(digits: list[int], radixes: list[int]) -> int:
    x = 0
    for r, dg in zip(radixes, digits):
        x = x * r + dg
    return x


def all_digits(radixes: list[int]) -> list[list[int]]:
    out: list[list[int]] = [[]]
    for r in radixes:
        out = [p + [k] for p in out for k in range(r)]
    return out


def controlled_def(G: np.ndarray, crad: list[int], levels: list[list[int]]) -> np.ndarray:
    """sum_c |c><c| (x) (G if every control digit is an active level else 1)."""
    dg = G.shape[0]
    dc = int(np.prod(crad))
    U = np.zeros((dc * dg, dc * dg), dtype=np.complex128)
    for cd in all_digits(crad):
        c = digits_to_index(cd, crad)
        act = all(cd[i] in levels[i] for i in range(len(crad)))
        U[c * dg:(c + 1) * dg, c * dg:(c + 1) * dg] = G if act else np.eye(dg)
    return U


def norm_control_args(a: dict[str, Any]) -> tuple[list[int], list[list[int]]]:
    """The documented meaning of ControlledGate's arguments."""
    nc = int(a.get('num_controls', 1))
    cr = a.get('control_radixes', 2)
    crad = [int(cr)] * nc if isinstance(cr, int) else [int(x) for x in cr]
    lv = a.get('control_levels', None)
    if lv is None:
        levels = [[r - 1] for r in crad]       # highest level
    elif isinstance(lv, int):
        levels = [[lv] for _ in crad]
    else:
        levels = [[int(x)] if isinstance(x, int) else [int(y) for y in x] for x in lv]
    return crad, levels


def embedded_def(G: np.ndarray, grad_: list[int], trad: list[int], lmaps: list[list[int]]) -> np.ndarray:
    D = int(np.prod(trad))
    U = np.eye(D, dtype=np.complex128)
    dig = all_digits(grad_)
    tgt = [digits_to_index([lmaps[q][d[q]] for q in range(len(grad_))], trad) for d in dig]
    for i, ti in enumerate(tgt):
        for j, tj in enumerate(tgt):
            U[ti, tj] = G[i, j]
    return U


def norm_embedded_args(a: dict[str, Any], grad_: list[int]) -> tuple[list[int], list[list[int]]]:
    tr = a['radixes']
    trad = [int(tr)] * len(grad_) if isinstance(tr, int) else [int(x) for x in tr]
    lm = a.get('level_maps', None)
    if lm is None:
        lmaps = [list(range(r)) for r in grad_]
    elif lm and isinstance(lm[0], int):
        lmaps = [list(lm) for _ in grad_]
    else:
        lmaps = [list(x) for x in lm]
    return trad, lmaps


def matrix_power(G: np.ndarray, k: int) -> np.ndarray:
    if k >= 0:
        return np.linalg.matrix_power(G, k)
    return np.linalg.matrix_power(G.conj().T, -k)


def deep_optimizable(g: Any) -> bool:
    from bqskit.ir.gates.composedgate import ComposedGate
    from bqskit.qis.unitary.optimizable import LocallyOptimizableUnitary
    if not isinstance(g, LocallyOptimizableUnitary):
        return False
    if isinstance(g, ComposedGate) and hasattr(g, 'gate'):
        return deep_optimizable(g.gate)
    return True


# --------------------------------------------------------------- oracles
def algebra(out: Out, gate: Any, spec: dict[str, Any], params: list[float], U: np.ndarray, style: str) -> None:
    """Composed gate = numpy algebra of its parts."""
    cls = spec.get('cls')
    a = spec.get('args', {})
    want = None
    if cls in R.COMPOSED:
        inner = R.build(a['gate'])
        if cls == 'FrozenParameterGate':
            fz = {int(k): float(v) for k, v in a['frozen_params'].items()}
            it = iter(params)
            full = [fz[i] if i in fz else next(it) for i in range(inner.num_params)]
            want = np.asarray(inner.get_unitary(full))
        elif cls == 'VariableLocationGate':
            na = inner.num_params
            lp = list(params[na:])
            top = sorted(lp, reverse=True)
            # defined only where the softmax(10 x) weights are one-hot
            if len(lp) > 1 and top[0] - top[1] < 7.5:
                out.cnt('algebra_skipped:vlg_interpolating')
                return
            loc = [int(q) for q in a['locations'][int(np.argmax(lp))]]
            Gm = np.asarray(inner.get_unitary(list(params[:na])))
            want = refsim.embed_slow(Gm, loc, list(gate.radixes))
        else:
            Gm = np.asarray(inner.get_unitary(params))
            if cls == 'ControlledGate':
                crad, levels = norm_control_args(a)
                want = controlled_def(Gm, crad, levels)
                if any(r > 2 for r in crad):
                    out.cnt('algebra:ControlledGate:qudit_controls')
                if len(crad) > 1:
                    out.cnt('algebra:ControlledGate:multi_controls')
            elif cls == 'PowerGate':
                k = int(a.get('power', 1))
                want = matrix_power(Gm, k)
                out.cnt('algebra:PowerGate:' + ('negative' if k < 0 else 'zero' if k == 0 else 'positive'))
            elif cls == 'DaggerGate':
                want = Gm.conj().T
            elif cls == 'TaggedGate':
                want = Gm
            elif cls == 'EmbeddedGate':
                trad, lmaps = norm_embedded_args(a, list(inner.radixes))
                want = embedded_def(Gm, list(inner.radixes), trad, lmaps)
    elif cls == 'CircuitGate':
        c = a['circuit']['__circuit__']
        circ = R.build_circuit(c)
        items = []
        i = 0
        for op in circ:
            k = op.gate.num_params
            items.append((np.asarray(op.gate.get_unitary(list(params[i:i + k]))), tuple(op.location)))
            i += k
        if i != len(params):
            out.bad('algebra:CircuitGate:num_params', spec, params=params, got=len(params), want=i)
            return
        want = refsim.unitary_of_items(items, list(circ.radixes))
    if want is None:
        return
    out.cnt('algebra:' + str(cls))
    out.cnt('oracle:algebra')
    if want.shape != U.shape or maxabs(want - U) > TOL_EQ:
        out.bad(
            'algebra:%s:mismatch' % cls, spec, params=params, style=style,
            maxdiff=maxabs(want - U) if want.shape == U.shape else 'shape',
            phase_aligned=refsim.phase_aligned_diff(U, want) if want.shape == U.shape else None,
            got=small(U), want=small(want),
        )


def check_case(
    out: Out, gate: Any, spec: dict[str, Any], style: str, params: list[float],
    export_name: str | None = None,
) -> None:
    """All per-(construction, parameter vector) oracles."""
    from bqskit.ir.gate import Gate
    name = spec.get('cls') or spec.get('export')
    out.ctx.pop('vlg_weights', None)
    if name == 'VariableLocationGate':
        # softmax(10 x) location weights: one-hot (a placement) or interpolating
        lp = sorted(params[len(params) - len(spec['args']['locations']):], reverse=True)
        out.ctx['vlg_weights'] = 'one_hot' if len(lp) < 2 or lp[0] - lp[1] >= 7.5 else 'interpolating'
    # ---- get_unitary
    try:
        Um = gate.get_unitary(params)
    except Exception as e:  # noqa
        out.cases.append((core.sig_of([spec, params]), False))
        out.raised('get_unitary', spec, e, params=params, style=style)
        return
    U = np.asarray(Um, dtype=np.complex128)
    nontrivial = U.ndim == 2 and U.shape[0] == U.shape[1] and maxabs(U - np.eye(U.shape[0])) > 1e-6
    out.cases.append((core.sig_of([spec, params]), bool(nontrivial)))
    out.cnt('style:' + style)
    if len(out.samples) < 1 and len(params) > 0:
        out.samples.append({'spec': spec, 'params': params, 'style': style})

    # ---- advertised
    out.cnt('oracle:advertised')
    dim, rad, nq = gate.dim, tuple(gate.radixes), gate.num_qudits
    probs = []
    if U.shape != (dim, dim):
        probs.append('matrix shape %s != (dim, dim) with dim=%d' % (U.shape, dim))
    if int(np.prod(rad)) != dim:
        probs.append('prod(radixes)=%d != dim=%d' % (int(np.prod(rad)), dim))
    if len(rad) != nq:
        probs.append('len(radixes)=%d != num_qudits=%d' % (len(rad), nq))
    ur = getattr(Um, 'radixes', None)
    if ur is not None and tuple(ur) != rad:
        probs.append('returned UnitaryMatrix.radixes %s != gate.radixes %s' % (tuple(ur), rad))
    if len(params) != gate.num_params:
        probs.append('num_params')
    if probs:
        out.bad('advertised:mismatch', spec, params=params, style=style, problems=probs)
        if U.ndim != 2 or U.shape != (dim, dim):
            return

    # ---- unitary
    out.cnt('oracle:unitary')
    dev = maxabs(U.conj().T @ U - np.eye(dim))
    if not np.all(np.isfinite(U)) or dev > TOL_U:
        out.bad('unitary:not_unitary', spec, params=params, style=style, deviation=dev)
        return

    # ---- gradient
    G = None
    try:
        G = gate.get_grad(params)
    except NotImplementedError:
        out.cnt('grad_skipped:not_implemented')
        try:
            if gate.is_differentiable():
                out.bad('grad:is_differentiable_but_not_implemented', spec, params=params)
        except Exception:  # noqa
            pass
    except Exception as e:  # noqa
        # a composed gate over a non-differentiable part has no gradient
        if not _all_parts_have_grad(spec):
            out.cnt('grad_skipped:part_not_differentiable')
        else:
            out.raised('get_grad', spec, e, params=params, style=style)
    if G is not None:
        G = np.asarray(G)
        if gate.num_params == 0:
            out.cnt('oracle:grad_constant')
            if G.size != 0:
                out.bad('grad:nonempty_for_constant', spec, shape=list(G.shape))
        elif G.shape != (gate.num_params, dim, dim):
            out.bad('grad:shape', spec, params=params, got=list(G.shape), want=[gate.num_params, dim, dim])
        else:
            out.cnt('oracle:grad_fd')
            out.cnt('grad_fd_entries', gate.num_params)
            try:
                F = fd_grad(gate, params)
                scale = 1.0 + maxabs(F)
                diff = np.abs(F - G)
                reliable = True
                if maxabs(diff) > 1e-6 * scale:
                    # trust the differences only where two step sizes agree
                    # (get_unitary may not be smooth at this point)
                    F2 = fd_grad(gate, params, FD_H / 4)
                    reliable = maxabs(F2 - F) <= 1e-6 * scale
                    if not reliable:
                        out.cnt('grad_fd_undecided:not_smooth_at_point')
                if reliable and maxabs(diff) > 1e-6 * scale:
                    idx = np.unravel_index(int(np.argmax(diff)), diff.shape)
                    out.bad(
                        'grad:fd_mismatch', spec, params=params, style=style,
                        maxdiff=maxabs(diff), entry=[int(x) for x in idx],
                        got=[float(G[idx].real), float(G[idx].imag)],
                        want=[float(F[idx].real), float(F[idx].imag)],
                    )
            except Exception as e:  # noqa
                out.raised('get_unitary', spec, e, params=params, style=style, during='finite differences')
    # ---- get_unitary_and_grad
    try:
        U2m, G2 = gate.get_unitary_and_grad(params)
        out.cnt('oracle:uag')
        ur2 = getattr(U2m, 'radixes', None)
        if ur2 is not None and tuple(ur2) != rad:
            out.bad(
                'advertised:mismatch', spec, params=params, style=style,
                problems=['get_unitary_and_grad: returned UnitaryMatrix.radixes %s != gate.radixes %s' % (tuple(ur2), rad)],
            )
        U2 = np.asarray(U2m, dtype=np.complex128)
        G2 = np.asarray(G2)
        if U2.shape != U.shape or maxabs(U2 - U) > TOL_EQ:
            # undecidable where get_unitary itself jumps under a 1e-9 nudge
            # (e.g. closest-unitary projection of a singular matrix)
            nudged = np.asarray(gate.get_unitary([x + 1e-9 for x in params]), dtype=np.complex128)
            if maxabs(nudged - U) > 1e-6:
                out.cnt('uag_undecided:not_smooth_at_point')
            else:
                out.bad(
                    'uag:unitary_differs', spec, params=params, style=style,
                    maxdiff=maxabs(U2 - U) if U2.shape == U.shape else 'shape',
                )
        if G is not None:
            if G2.size != G.size or (G.size and (G2.shape != G.shape or maxabs(G2 - G) > TOL_EQ * (1 + maxabs(G)))):
                out.bad(
                    'uag:grad_differs', spec, params=params, style=style,
                    maxdiff=maxabs(G2 - G) if G2.shape == G.shape else 'shape',
                )
    except NotImplementedError:
        out.cnt('uag_skipped:not_implemented')
    except Exception as e:  # noqa
        if G is None:
            out.cnt('uag_skipped:no_gradient')
        else:
            out.raised('get_unitary_and_grad', spec, e, params=params, style=style)

    # ---- inverse
    try:
        inv = gate.get_inverse()
        ip = gate.get_inverse_params(params)
        V = np.asarray(inv.get_unitary(ip), dtype=np.complex128)
        out.cnt('oracle:inverse')
        if type(gate).get_inverse_params is not Gate.get_inverse_params:
            out.cnt('inverse:overridden_params')
        if V.shape != U.shape or max(maxabs(V @ U - np.eye(dim)), maxabs(U @ V - np.eye(dim))) > TOL_EQ:
            out.bad(
                'inverse:not_identity', spec, params=params, style=style,
                inverse_gate=repr(inv)[:80], inverse_params=[float(x) for x in ip],
                maxdiff=maxabs(V @ U - np.eye(dim)) if V.shape == U.shape else 'shape',
                phase_aligned=refsim.phase_aligned_diff(V @ U, np.eye(dim)) if V.shape == U.shape else None,
            )
    except Exception as e:  # noqa
        out.raised('get_inverse', spec, e, params=params, style=style)

    # ---- calc_params
    if hasattr(gate, 'calc_params'):
        try:
            with warnings.catch_warnings():
                warnings.simplefilter('ignore')
                q = [float(x) for x in gate.calc_params(Um)]
            out.cnt('oracle:calc_params')
            ok = len(q) == gate.num_params and all(np.isfinite(q))
            if ok:
                W = np.asarray(gate.get_unitary(q), dtype=np.complex128)
                d0 = maxabs(W - U)
                d1 = refsim.phase_aligned_diff(W, U)
                if d1 > 1e-6:
                    out.bad('calc_params:mismatch', spec, params=params, style=style, got_params=q, maxdiff=d0, phase_aligned=d1)
                elif d0 > 1e-6:
                    out.cnt('calc_params:equal_up_to_global_phase_only')
            else:
                out.bad('calc_params:not_finite', spec, params=params, style=style, got_params=[repr(x) for x in q])
        except Exception as e:  # noqa
            out.raised('calc_params', spec, e, params=params, style=style)

    # ---- expression backend vs hand-written code
    if hasattr(gate, '_expr'):
        try:
            if type(gate).get_unitary is not Gate.get_unitary:
                E = np.asarray(gate._expr(*params), dtype=np.complex128)
                out.cnt('oracle:expr_vs_hand_unitary')
                if E.shape != U.shape or maxabs(E - U) > TOL_EQ:
                    out.bad(
                        'expr_vs_hand:unitary', spec, params=params, style=style,
                        maxdiff=maxabs(E - U) if E.shape == U.shape else 'shape',
                        phase_aligned=refsim.phase_aligned_diff(E, U) if E.shape == U.shape else None,
                    )
            if G is not None and gate.num_params and type(gate).get_grad is not Gate.get_grad:
                EG = np.asarray(gate._expr.gradient(*params))
                out.cnt('oracle:expr_vs_hand_grad')
                if EG.shape != G.shape or maxabs(EG - G) > TOL_EQ * (1 + maxabs(G)):
                    out.bad('expr_vs_hand:grad', spec, params=params, style=style, maxdiff=maxabs(EG - G) if EG.shape == G.shape else 'shape')
            if gate._expr.num_params() != gate.num_params or tuple(gate._expr.radices()) != rad:
                out.bad('expr_vs_hand:metadata', spec, expr_radixes=list(gate._expr.radices()), radixes=list(rad))
        except Exception as e:  # noqa
            out.raised('expression', spec, e, params=params, style=style)

    # ---- composed = algebra of parts
    try:
        algebra(out, gate, spec, params, U, style)
    except Exception as e:  # noqa
        out.harness.append('algebra oracle failed on %s: %r' % (json.dumps(spec)[:200], e))

    # ---- references
    try:
        ref = R.reference_matrix(spec, params)
    except Exception as e:  # noqa
        ref = None
        out.harness.append('reference oracle failed on %s: %r' % (name, e))
    if ref is not None:
        want, src = ref
        out.cnt('oracle:reference')
        if want.shape != U.shape or maxabs(want - U) > TOL_EQ:
            ph = refsim.phase_aligned_diff(U, want) if want.shape == U.shape else None
            kind = 'reference_matrix:global_phase' if ph is not None and ph <= TOL_EQ else 'reference_matrix:mismatch'
            out.bad(kind, spec, params=params, style=style, source=src, maxdiff=maxabs(want - U) if ph is not None else 'shape', got=small(U), want=small(want))
    if export_name is not None and not spec.get('args') and export_name in R.QISKIT_TABLE:
        try:
            want = R.qiskit_matrix(export_name, params)
        except Exception as e:  # noqa
            want = None
            out.harness.append('qiskit oracle failed on %s: %r' % (export_name, e))
        if want is not None:
            out.cnt('oracle:qiskit_matrix')
            out.cnt('qiskit:' + export_name)
            if want.shape != U.shape or maxabs(want - U) > TOL_EQ:
                ph = refsim.phase_aligned_diff(U, want) if want.shape == U.shape else None
                kind = 'qiskit_matrix:global_phase' if ph is not None and ph <= TOL_EQ else 'qiskit_matrix:mismatch'
                out.bad(
                    kind, spec, params=params, style=style, bqskit_name=export_name,
                    qiskit_name=R.QISKIT_TABLE[export_name][0], name_match=R.QISKIT_TABLE[export_name][1],
                    maxdiff=maxabs(want - U) if ph is not None else 'shape', got=small(U), want=small(want),
                )


_GRAD_CACHE: dict[str, bool] = {}


def _all_parts_have_grad(spec: dict[str, Any]) -> bool:
    """True iff every non-composed part of `spec` defines a gradient."""
    key = json.dumps(spec, sort_keys=True)
    if key in _GRAD_CACHE:
        return _GRAD_CACHE[key]
    ok = True
    try:
        if 'cls' in spec and isinstance(spec.get('args', {}).get('gate'), dict):
            ok = _all_parts_have_grad(spec['args']['gate'])
        elif spec.get('cls') == 'CircuitGate':
            for gs, _, _ in spec['args']['circuit']['__circuit__']['ops']:
                ok = ok and _all_parts_have_grad(gs)
        else:
            g = R.build(spec)
            try:
                g.get_grad([0.1] * g.num_params)
            except NotImplementedError:
                ok = False
            except Exception:  # noqa
                ok = True
    except Exception:  # noqa
        ok = True
    _GRAD_CACHE[key] = ok
    return ok


def objective(gate: Any, env: np.ndarray, p: Any) -> complex:
    return complex(np.trace(env @ np.asarray(gate.get_unitary([float(x) for x in p]))))


def check_optimize(
    out: Out, gate: Any, spec: dict[str, Any], env: np.ndarray, env_kind: str,
    rng: np.random.Generator, nrandom: int,
) -> None:
    """optimize(env) maximises Re tr(env U(p)) (optimizable.py)."""
    import scipy.optimize as so
    try:
        with warnings.catch_warnings():
            warnings.simplefilter('ignore')
            opt = gate.optimize(env)
    except NotImplementedError:
        out.cnt('optimize_skipped:not_implemented')
        return
    except Exception as e:  # noqa
        out.raised('optimize', spec, e, env=R.enc_matrix(env), env_kind=env_kind)
        return
    n = gate.num_params
    try:
        opt = [float(x) for x in opt]
    except Exception:  # noqa
        out.bad('optimize:bad_return', spec, got=repr(opt)[:100], env=R.enc_matrix(env))
        return
    if n == 0:
        out.cnt('oracle:optimize_constant')
        if len(opt) != 0:
            out.bad('optimize:bad_return', spec, got=opt, env=R.enc_matrix(env))
        return
    out.cnt('oracle:optimize')
    out.cnt('optimize_env:' + env_kind)
    if len(opt) != n or not all(np.isfinite(opt)):
        out.bad('optimize:bad_return', spec, got=[repr(x) for x in opt], env=R.enc_matrix(env), env_kind=env_kind)
        return
    try:
        t0 = objective(gate, env, opt)
    except Exception as e:  # noqa
        out.raised('get_unitary', spec, e, params=opt, during='optimize result')
        return
    scale = max(1.0, float(np.sum(np.linalg.svd(env, compute_uv=False))))
    tol = 1e-6 * scale
    best_re, best_abs = t0.real, abs(t0)
    arg_re: Any = None
    how = ''
    for k in range(nrandom):
        if k % 4 == 3:
            p = np.asarray(opt) + rng.normal(scale=0.05, size=n)
        else:
            p = rng.uniform(-np.pi, np.pi, n)
        t = objective(gate, env, p)
        if t.real > best_re:
            best_re, arg_re, how = t.real, [float(x) for x in p], 'random vector'
        best_abs = max(best_abs, abs(t))
    out.cnt('optimize_random_vectors', nrandom)
    # local numerical maximiser started from the returned optimum
    if n <= 24:
        try:
            with warnings.catch_warnings():
                warnings.simplefilter('ignore')
                r1 = so.minimize(lambda p: -objective(gate, env, p).real, np.asarray(opt), method='BFGS', options={'maxiter': 60})
                out.cnt('optimize_local_maximiser')
                if -r1.fun > best_re:
                    best_re, arg_re, how = float(-r1.fun), [float(x) for x in r1.x], 'local maximiser from the returned optimum'
                if best_re > t0.real + tol:
                    r2 = so.minimize(lambda p: -abs(objective(gate, env, p)), np.asarray(opt), method='BFGS', options={'maxiter': 60})
                    best_abs = max(best_abs, float(-r2.fun))
        except Exception as e:  # noqa
            out.harness.append('local maximiser failed: %r' % (e,))
    if best_re > t0.real + tol:
        # better parameters exist for the documented objective; is the
        # returned optimum at least optimal for the phase-invariant |tr|?
        phase_only = best_abs <= abs(t0) + tol
        if phase_only:
            # The statement asks for the parameters that *best approximate* the
            # argument; in BQSKit's phase-invariant metric the returned optimum
            # of |tr(env U)| is exactly that. Only the docstring's Re tr form is
            # not met, which is not what the property states: count, don't fire.
            out.cnt('optimize:optimal_up_to_global_phase_only')
            return
        out.bad(
            'optimize:suboptimal',
            spec, env=R.enc_matrix(env), env_kind=env_kind, returned=opt,
            re_tr_returned=t0.real, re_tr_better=best_re, better_params=arg_re, found_by=how,
            abs_tr_returned=abs(t0), abs_tr_best_seen=best_abs, tolerance=tol,
        )


def make_envs(gate: Any, rng: np.random.Generator, k: int) -> list[tuple[str, np.ndarray]]:
    d = gate.dim
    envs: list[tuple[str, np.ndarray]] = []
    for i in range(k):
        m = i % 3
        if m == 0:
            envs.append(('gaussian', rng.normal(size=(d, d)) + 1j * rng.normal(size=(d, d))))
        elif m == 1 and gate.num_params:
            # the adjoint of a matrix the gate can produce: optimum is known to reach tr = d
            p = rng.uniform(-np.pi, np.pi, gate.num_params)
            try:
                envs.append(('adjoint_of_own_unitary', np.asarray(gate.get_unitary([float(x) for x in p])).conj().T.copy()))
            except Exception:  # noqa
                envs.append(('haar', R.haar(rng, d)))
        else:
            envs.append(('haar', R.haar(rng, d)))
    return envs


def check_spec(
    out: Out, spec: dict[str, Any], seed: int, idx: tuple[int, ...], budget: dict[str, Any],
    export_name: str | None, noarg: bool,
) -> Any:
    """All oracles on one construction. Returns the gate (or None)."""
    from bqskit.utils.cachedclass import CachedClass
    rng = core.rng_for(seed, PID, 2, *idx)
    name = spec.get('cls') or spec.get('export')
    try:
        with warnings.catch_warnings():
            warnings.simplefilter('ignore')
            g1 = R.build(spec)
            g2 = R.build(json.loads(json.dumps(spec)))
    except Exception as e:  # noqa
        out.raised('ctor', spec, e)
        return None
    out.cnt('class:' + str(type(g1).__name__))
    out.cnt('constructions')
    try:
        out.ctx = {'radix_class': 'qubit' if all(r == 2 for r in g1.radixes) else 'qudit'}
        out.cnt('radix_class:' + out.ctx['radix_class'])
    except Exception:  # noqa
        out.ctx = {}

    # ---- equal constructions
    out.cnt('oracle:eq_hash')
    try:
        if not (g1 == g2) or (g1 != g2):
            out.bad('eq_hash:same_construction_not_equal', spec)
        elif hash(g1) != hash(g2):
            out.bad('eq_hash:equal_but_hash_differs', spec, spec_b=spec)
        if 'export' not in spec and isinstance(g1, CachedClass):
            hashable = all(not isinstance(v, (dict, list)) for v in spec.get('args', {}).values())
            if hashable:
                out.cnt('oracle:singleton_cached')
                if g1 is not g2:
                    out.bad('eq_hash:cached_class_not_singleton', spec)
    except Exception as e:  # noqa
        out.raised('eq_hash', spec, e)

    # ---- pseudo gates without a matrix
    if name in R.PLACEHOLDERS_NO_UNITARY:
        out.cnt('oracle:placeholder')
        out.cases.append((core.sig_of([spec, []]), False))
        try:
            g1.get_unitary([])
            out.bad('placeholder:returned_a_unitary', spec)
        except RuntimeError:
            pass            # documented
        except Exception as e:  # noqa
            out.raised('get_unitary', spec, e)
        if len(g1.radixes) != g1.num_qudits or g1.num_params != 0:
            out.bad('advertised:mismatch', spec, problems=['placeholder radixes/num_qudits/num_params'])
        return g1

    # ---- parameter vectors
    try:
        n = g1.num_params
    except Exception as e:  # noqa
        out.raised('num_params', spec, e)
        return g1
    generic = budget['generic_noarg'] if (noarg and n) else budget['generic']
    if g1.dim > 32 or n > 32:
        generic = max(1, generic // 3)
    with warnings.catch_warnings():
        warnings.simplefilter('ignore')
        for style, p in R.param_vectors(rng, n, generic):
            check_case(out, g1, spec, style, p, export_name)
        if spec.get('cls') == 'VariableLocationGate' and n:
            # points where the location weights are one-hot (algebra defined)
            na = n - len(spec['args']['locations'])
            for j in range(len(spec['args']['locations'])):
                for _ in range(2):
                    p = [float(x) for x in rng.uniform(-2 * np.pi, 2 * np.pi, na)]
                    lp = [float(x) for x in rng.uniform(-1, 1, n - na)]
                    lp[j] += 10.0
                    check_case(out, g1, spec, 'vlg_one_hot', p + lp, export_name)

        # ---- optimize
        try:
            eligible = deep_optimizable(g1)
        except Exception:  # noqa
            eligible = False
        from bqskit.qis.unitary.optimizable import LocallyOptimizableUnitary
        if isinstance(g1, LocallyOptimizableUnitary) and not eligible:
            out.cnt('optimize_rejected_input:part_not_locally_optimizable')
        if eligible and g1.dim <= 32 and n <= 70:
            for ek, env in make_envs(g1, rng, budget['envs'] if n else 1):
                check_optimize(out, g1, spec, env, ek, rng, budget['nrandom'])
    return g1


def pair_check(out: Out, gates: list[tuple[dict[str, Any], Any]], limit: int, rng: np.random.Generator) -> None:
    """Any two gates that compare == must hash equally."""
    n = len(gates)
    pairs = [(i, j) for i in range(n) for j in range(i + 1, n)]
    if len(pairs) > limit:
        # adjacent pairs first (recipes put related constructions side by side)
        adj = [(i, i + 1) for i in range(n - 1)]
        rest = [pairs[int(k)] for k in rng.choice(len(pairs), size=limit, replace=False)]
        pairs = adj + rest
    for i, j in pairs:
        (sa, ga), (sb, gb) = gates[i], gates[j]
        if json.dumps(sa, sort_keys=True) == json.dumps(sb, sort_keys=True):
            continue
        out.cnt('eq_pairs_compared')
        try:
            if ga == gb:
                out.cnt('eq_pairs_equal')
                if hash(ga) != hash(gb):
                    out.bad('eq_hash:equal_but_hash_differs', sa, spec_b=sb)
        except Exception as e:  # noqa
            out.raised('eq_hash', sa, e, spec_b=sb)


def check_class(arg: tuple[int, str, str, str, int, int]) -> dict[str, Any]:
    """Work item: the recipe variants vi of one exported name with
    vi % nchunks == chunk (the recipe itself is regenerated identically in
    every chunk; chunk 0 also runs the pairwise ==/hash check)."""
    seed, export_name, recipe, tier, chunk, nchunks = arg
    out = Out(export_name)
    try:
        budget = BUDGET[tier]
        rng = core.rng_for(seed, PID, 1, crc(export_name))
        nvar = max(2, int(budget['variants'] * VARIANTS_SCALE.get(recipe, 1.0)))
        with warnings.catch_warnings():
            warnings.simplefilter('ignore')
            specs = R.RECIPES[recipe](rng, nvar)
        noarg = len(specs) == 1
        gates = []
        for vi, spec in enumerate(specs):
            if vi % nchunks == chunk:
                g = check_spec(out, spec, seed, (crc(export_name), vi), budget, export_name, noarg)
            elif chunk == 0:
                try:
                    with warnings.catch_warnings():
                        warnings.simplefilter('ignore')
                        g = R.build(spec)
                except Exception:  # noqa: reported by the chunk that owns it
                    g = None
            else:
                continue
            if g is not None:
                gates.append((spec, g))
        if chunk == 0:
            pair_check(out, gates, budget['pairs'], rng)
            out.cnt('exported_names_checked')
    except Exception as e:  # noqa
        import traceback
        out.harness.append('work item %s crashed: %r %s' % (export_name, e, traceback.format_exc()[-600:]))
    return out.dump()


def check_relations() -> dict[str, Any]:
    """Square-root gates squared give their base gate."""
    out = Out('relations')
    for a, b in R.SQUARE_RELATIONS:
        try:
            A = np.asarray(R.build(R.S(a)).get_unitary())
            B = np.asarray(R.build(R.S(b)).get_unitary())
            out.cnt('oracle:reference')
            out.cnt('relation_square')
            if maxabs(A @ A - B) > TOL_EQ:
                ph = refsim.phase_aligned_diff(A @ A, B)
                out.bad(
                    'reference_matrix:global_phase' if ph <= TOL_EQ else 'reference_matrix:mismatch',
                    R.S(a), params=[], source='relation: %s^2 = %s' % (a, b), maxdiff=maxabs(A @ A - B),
                )
        except Exception as e:  # noqa
            out.raised('get_unitary', R.S(a), e)
    return out.dump()


# ------------------------------------------------------------------- main
REQUIRED = [
    ('oracle:advertised', 50), ('oracle:unitary', 50), ('oracle:grad_fd', 30),
    ('oracle:uag', 30), ('oracle:inverse', 50), ('inverse:overridden_params', 1),
    ('oracle:calc_params', 5), ('oracle:optimize', 10), ('optimize_local_maximiser', 5),
    ('oracle:algebra', 30), ('algebra:ControlledGate', 3), ('algebra:ControlledGate:qudit_controls', 1),
    ('algebra:ControlledGate:multi_controls', 1),
    ('algebra:PowerGate', 3), ('algebra:PowerGate:negative', 1), ('algebra:DaggerGate', 3),
    ('algebra:FrozenParameterGate', 3), ('algebra:EmbeddedGate', 3), ('algebra:TaggedGate', 3),
    ('algebra:VariableLocationGate', 1), ('algebra:CircuitGate', 3),
    ('oracle:eq_hash', 50), ('oracle:singleton_cached', 20), ('eq_pairs_compared', 20),
    ('oracle:qiskit_matrix', 30), ('oracle:expr_vs_hand_unitary', 10), ('oracle:expr_vs_hand_grad', 2),
    ('oracle:reference', 20), ('oracle:placeholder', 2), ('grad_skipped:not_implemented', 1),
    ('style:zeros', 10), ('style:halfpi', 10), ('style:large', 10), ('style:generic', 10),
]


def merge(run: core.Run, r: dict[str, Any], pending: list[dict[str, Any]] | None = None) -> None:
    for k, v in r['c'].items():
        run.count(k, v)
    for sig, nt in r['cases']:
        run.case(sig, nontrivial=nt)
    for s in r['samples']:
        if len(run.samples) < run.max_samples:
            run.samples.append(core.jsonable(s))
    for h in r['harness']:
        run.inconclusive_because('harness: ' + h[:300])
    for w in r['w']:
        if pending is None:
            run.violation(w)
        else:
            pending.append(w)


def report_in_mechanism_order(run: core.Run, pending: list[dict[str, Any]]) -> None:
    """Hand the witnesses to the Run so that the limited number of replay
    files covers as many distinct mechanisms as possible."""
    rank: dict[tuple, int] = {}
    keyed = []
    for i, w in enumerate(pending):
        k1 = (w.get('kind'),)
        k2 = (w.get('kind'), w.get('gate_class'))
        a, b = rank.get(k1, 0), rank.get(k2, 0)
        rank[k1], rank[k2] = a + 1, b + 1
        keyed.append(((b, a, i), w))
    for _, w in sorted(keyed, key=lambda t: t[0]):
        run.violation(w)


def main(tier: str, seed: int, replay: str | None = None) -> int:
    run = core.Run(PID, tier, seed)
    run.max_violation_files = 60
    if replay:
        return do_replay(run, replay)
    exp = R.exported()
    items = []
    missing = []
    for name, info in sorted(exp.items()):
        if info['kind'] == 'non_concrete':
            run.count('exported:non_concrete')
            continue
        if info['recipe'] is None:
            missing.append(name)
            continue
        run.count('exported:' + info['kind'])
        nchunks = CHUNKS[tier] if info['recipe'] in CHUNKED else 1
        for ch in range(nchunks):
            items.append((seed, name, info['recipe'], tier, ch, nchunks))
    for name in missing:
        run.count('exported:no_recipe')
        run.inconclusive_because('exported gate %s has no constructor recipe in vlib/gaterecipes.py' % name)
    # heavy items first so the pool drains evenly
    heavy = {'CircuitGate': 0, 'VariableLocationGate': 1, 'FrozenParameterGate': 2, 'ControlledGate': 3, 'EmbeddedGate': 4, 'PowerGate': 5, 'DaggerGate': 6, 'TaggedGate': 7, 'PauliGate': 8}
    items.sort(key=lambda it: (heavy.get(it[1], 99), it[1]))
    workers = int(os.environ.get('VERIF_WORKERS', '0')) or min(16, os.cpu_count() or 4)
    try:        # imported before the fork so the workers share them
        import cirq  # noqa: F401
        import qiskit.circuit.library  # noqa: F401
    except Exception as e:  # noqa
        run.inconclusive_because('reference libraries not importable: %r' % (e,))
    res = core.pmap(check_class, items, workers=workers)
    pending: list[dict[str, Any]] = []
    for r in res:
        merge(run, r, pending)
    merge(run, check_relations(), pending)
    report_in_mechanism_order(run, pending)
    for name, minimum in REQUIRED:
        run.require(name, minimum)
    covered = sorted({k[6:] for k in run.counters if k.startswith('class:')})
    for name, info in exp.items():
        if info['kind'] in ('class', 'alias') and info['real'] not in covered and info['recipe'] is not None:
            run.inconclusive_because('class %s was never constructed' % info['real'])
    return run.finish(
        rule='one case = one (gate construction, parameter vector) pushed through every applicable oracle; '
             'distinct = distinct (construction spec, parameter vector); non-trivial = the returned matrix differs from the identity',
        assumptions=[
            'constructor arguments are drawn from the documented admissible ranges only (recipes in vlib/gaterecipes.py); an exception from the code under test on such input is a violation',
            'calc_params is decided up to global phase (BQSKit cannot represent the phase of a U3/U8/Pauli gate); exact-only differences are counted as calc_params:equal_up_to_global_phase_only',
            'optimize is decided up to global phase: parameters that maximise |tr(env U)| count as best approximating (BQSKit\'s metric is phase-invariant); they are counted as optimize:optimal_up_to_global_phase_only when they miss the docstring\'s Re tr(env U) form; parameters that are beaten for both objectives are violations (optimize:suboptimal)',
            'VariableLocationGate algebra is decided only where its softmax location weights are one-hot',
            'a global-phase-only difference from Qiskit / reference matrices is a finding of its own kind (…:global_phase)',
            'finite differences: 4th-order central, h=2^-13, tolerance 1e-6*(1+max|dU|)',
            'MeasurementPlaceholder and Reset document that they have no unitary (RuntimeError expected)',
            'differently spelled but equivalent constructions (HGate() vs HGate(2), positional vs keyword) are not compared: CachedClass keys on the literal arguments and the statement only requires equal gates to hash equally',
        ],
        extra={
            'classes_covered': covered,
            'exported_names': {k: v['kind'] for k, v in sorted(exp.items())},
            'non_concrete': list(R.NON_CONCRETE),
            'qiskit_names_compared': sorted(k[7:] for k in run.counters if k.startswith('qiskit:')),
            'budget': BUDGET[tier],
        },
    )


def do_replay(run: core.Run, path: str) -> int:
    w = json.load(open(path))['witness']
    spec = json.loads(w['spec_json']) if 'spec_json' in w else w['spec']
    if 'spec_b_json' in w:
        w['spec_b'] = json.loads(w['spec_b_json'])
    out = Out('replay')
    kind = w.get('kind', '')
    print('replaying %s on %s' % (kind, json.dumps(spec)[:300]))
    try:
        g = R.build(spec)
    except Exception as e:  # noqa
        out.raised('ctor', spec, e)
        g = None
    if g is not None:
        if 'spec_b' in w:
            gb = R.build(w['spec_b'])
            g2 = R.build(json.loads(json.dumps(spec)))
            out.cnt('oracle:eq_hash')
            if json.dumps(spec, sort_keys=True) == json.dumps(w['spec_b'], sort_keys=True):
                if not (g == g2):
                    out.bad('eq_hash:same_construction_not_equal', spec)
                elif hash(g) != hash(g2):
                    out.bad('eq_hash:equal_but_hash_differs', spec, spec_b=spec)
            elif g == gb and hash(g) != hash(gb):
                out.bad('eq_hash:equal_but_hash_differs', spec, spec_b=w['spec_b'])
            out.cases.append((core.sig_of([spec, w['spec_b']]), True))
        elif 'env' in w:
            env = R.dec_matrix(w['env']['__matrix__'])
            check_optimize(out, g, spec, env, w.get('env_kind', 'replay'), core.rng_for(run.seed, PID, 9), 200)
            out.cases.append((core.sig_of([spec, 'env']), True))
        elif kind.startswith('eq_hash') or kind.startswith('ctor'):
            check_spec(out, spec, run.seed, (0,), BUDGET['quick'], w.get('bqskit_name'), False)
        else:
            with warnings.catch_warnings():
                warnings.simplefilter('ignore')
                check_case(out, g, spec, w.get('style', 'replay'), [float(x) for x in w.get('params', [])], w.get('bqskit_name') or (w.get('item') if not spec.get('args') else None))
    merge(run, out.dump())
    run.case(('replay', 0))
    run.case(('replay', 1))
    for x in out.w:
        print('  reproduced: %s %s' % (x['kind'], {k: v for k, v in x.items() if k in ('maxdiff', 'exc', 'msg', 'problems', 're_tr_returned', 're_tr_better')}))
    return run.finish(rule='replay of one recorded witness')
