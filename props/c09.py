"""C09 — placement, layout and routing preserve the program and respect the
coupling.

Runtime monitor over real executions of the mapping passes inside a real
attached `Compiler` (one per worker process of this check):

    [SetModelPass, {Greedy|Trivial|Static}PlacementPass,
     GeneralizedSabreLayoutPass(...), GeneralizedSabreRoutingPass(...),
     ApplyPlacement]                                           (SABRE cases)
    [.., SubtopologySelection, QuickPartitioner, ForEachBlock(EmbedAll
     Permutations(QSearch)), PAMLayout, PAMRouting, ApplyPlacement, Unfold]
                                                               (PAM cases)

Deciding oracles (vlib/mapchk.py, vlib/refsim.py; none shares code with the
passes): mapping sanity + connectivity of the chosen placement, coupling of
every multi-qudit operation, swap-stripping translation validation (SABRE),
block-level walk with the recorded block permutations (PAM), and the refsim
isometry check `mapped_cost` under (initial_mapping, final_mapping).
"""
from __future__ import annotations

import json
import os
import re
import signal
import time
from typing import Any

import numpy as np

from vlib import core
from vlib import gen
from vlib import mapchk as M
from vlib import refsim

PID = 'C09'

# ------------------------------------------------------------------ budgets
#            family: number of cases
COUNTS = {
    'quick': {
        'rand': 420, 'escape': 120, 'linefar': 60, 'swapin': 50,
        'qutrit': 40, 'small': 120, 'pam': 2, 'seqpam': 6,
    },
    'thorough': {
        'rand': 4500, 'escape': 1500, 'linefar': 600, 'swapin': 500,
        'qutrit': 400, 'small': -1,   # -1: exhaustive (see small_cases)
        'pam': 25, 'seqpam': 60,
    },
}
SABRE_TIMEOUT_S = 300     # watchdog per SABRE compile (inconclusive, not a verdict)
PAM_TIMEOUT_S = {'quick': 600, 'thorough': 1500}
REFSIM_MAX_N = 9
LEAK_TOL = 1e-7


PASS_NAMES = {
    'greedy': 'GreedyPlacementPass', 'trivial': 'TrivialPlacementPass',
    'static': 'StaticPlacementPass',
}


def floor_for(num_ops: int) -> float:
    return 1e-10 * (num_ops + 1)


# ------------------------------------------------------------ case recipes
DD = [0.0, 0.001, 0.001, 0.1]
DRI = [1, 5, 5, 20]
ESS = [0, 1, 5, 20, 20]
ESW = [0.0, 0.5, 0.5, 2.0]


def sabre_params(rng: np.random.Generator, layout: bool, **force: Any) -> dict[str, Any]:
    p: dict[str, Any] = {
        'decay_delta': float(rng.choice(DD)),
        'decay_reset_interval': int(rng.choice(DRI)),
        'decay_reset_on_gate': bool(rng.random() < 0.7),
        'extended_set_size': int(rng.choice(ESS)),
        'extended_set_weight': float(rng.choice(ESW)),
    }
    if layout:
        p['total_passes'] = int(rng.choice([1, 1, 2, 3]))
    p.update(force)
    return p


def gen_ops(
    rng: np.random.Generator, n: int, radix: int, depth: int,
    p3: float, p2: float, pbar: float, far: bool = False, swaps: float = 0.0,
) -> list[list[Any]]:
    ops: list[list[Any]] = []
    g1 = M.QUBIT_1 if radix == 2 else M.QUTRIT_1
    g2 = M.QUBIT_2 if radix == 2 else M.QUTRIT_2
    g3 = M.QUBIT_3 if radix == 2 else []
    for _ in range(depth):
        r = rng.random()
        if r < pbar and n >= 2:
            k = int(rng.integers(2, n + 1))
            ops.append(['BARRIER', [int(x) for x in rng.choice(n, k, replace=False)], []])
            continue
        r = rng.random()
        if r < swaps and n >= 2:
            name = 'SWAP'
        elif r < swaps + p3 and n >= 3 and g3:
            name = str(rng.choice(g3))
        elif r < swaps + p3 + p2 and n >= 2:
            name = str(rng.choice(g2))
        else:
            name = str(rng.choice(g1))
        k = M.arity(name)
        if far and k == 2 and n >= 4:
            a = int(rng.integers(n))
            b = (a + n // 2 + int(rng.integers(-1, 2))) % n
            if a == b:
                b = (a + 1) % n
            loc = [a, b]
        else:
            loc = [int(x) for x in rng.choice(n, k, replace=False)]
        ops.append([name, loc, gen.rand_params(rng, M.num_params(name, radix))])
    return ops


def gen_graph(rng: np.random.Generator, N: int, kinds: list[str]) -> tuple[str, list[list[int]]]:
    kind = str(rng.choice(kinds))
    edges = gen.graph_edges(kind, N, rng)
    if not gen.is_connected(N, edges):
        kind = 'line'
        edges = gen.graph_edges('line', N, rng)
    if rng.random() < 0.6:  # random relabelling: placement passes depend on labels
        perm = [int(x) for x in rng.permutation(N)]
        edges = [(perm[a], perm[b]) for a, b in edges]
    edges = sorted({(min(a, b), max(a, b)) for a, b in edges})
    return kind, [[int(a), int(b)] for a, b in edges]


def bfs_relabel(rng: np.random.Generator, N: int, edges: list[list[int]]) -> list[list[int]]:
    """Relabel so that every prefix 0..k-1 induces a connected subgraph."""
    adj = M.adjacency(N, edges)
    start = int(rng.integers(N))
    order = [start]
    seen = {start}
    i = 0
    while i < len(order):
        nb = [y for y in adj[order[i]] if y not in seen]
        for y in [int(x) for x in rng.permutation(nb)] if nb else []:
            seen.add(y)
            order.append(y)
        i += 1
    ren = {v: k for k, v in enumerate(order)}
    return [list(e) for e in sorted({(min(ren[a], ren[b]), max(ren[a], ren[b])) for a, b in edges})]


def fix_placement_choice(rng: np.random.Generator, case: dict[str, Any]) -> None:
    """Keep the share of cases that the placement pass refuses small (every
    refusal costs a compiler restart): the trivial placement gets a machine
    whose first n qudits are connected in ~85% of its cases; the static
    placement (exponential search with a wall-clock cut-off) gets small
    instances only."""
    if case['placement'] == 'static' and (case['n'] > 6 or case['N'] > 8):
        case['placement'] = 'greedy'
    if case['placement'] == 'trivial':
        adj = M.adjacency(case['N'], case['edges'])
        if not M.connected_in(adj, list(range(case['n']))) and rng.random() < 0.85:
            case['edges'] = bfs_relabel(rng, case['N'], case['edges'])


def make_case(seed: int, family: str, idx: int) -> dict[str, Any]:
    fam_id = ['rand', 'escape', 'linefar', 'swapin', 'qutrit', 'small', 'pam'].index(family)
    rng = core.rng_for(seed, PID, fam_id, idx)
    case: dict[str, Any] = {'engine': 'sabre', 'family': family, 'idx': idx, 'radix': 2}
    if family == 'rand':
        n = int(rng.integers(2, 9))
        N = int(rng.integers(n, min(10, n + 3) + 1))
        kind, edges = gen_graph(rng, N, gen.GRAPH_KINDS)
        depth = int(rng.integers(3, 31))
        ops = gen_ops(rng, n, 2, depth, float(rng.choice([0.0, 0.1, 0.3])), 0.5, float(rng.choice([0.0, 0.08])))
        case.update(
            n=n, N=N, graph=kind, edges=edges, ops=ops,
            placement=str(rng.choice(['greedy', 'greedy', 'trivial', 'static'])),
            partition=int(rng.choice([0, 0, 0, 3, 3, 2])),
            layout=sabre_params(rng, True) if rng.random() < 0.9 else None,
            routing=sabre_params(rng, False),
        )
    elif family == 'escape':
        n = int(rng.integers(7, 9))
        N = int(rng.integers(n, 11))
        kind, edges = gen_graph(rng, N, ['tree', 'tree', 'tree', 'random'])
        ops = gen_ops(rng, n, 2, int(rng.integers(10, 21)), 0.8, 0.15, 0.03)
        case.update(
            n=n, N=N, graph=kind, edges=edges, ops=ops, placement='greedy',
            partition=int(rng.choice([0, 0, 0, 3])),
            layout=sabre_params(rng, True) if rng.random() < 0.4 else None,
            routing=sabre_params(
                rng, False, extended_set_size=int(rng.choice([0, 0, 20])),
                decay_delta=float(rng.choice([0.0, 0.0, 0.001])),
            ),
        )
    elif family == 'linefar':
        n = int(rng.integers(5, 9))
        N = int(rng.integers(n, 11))
        kind, edges = gen_graph(rng, N, ['line', 'ring'])
        ops = gen_ops(rng, n, 2, int(rng.integers(6, 25)), float(rng.choice([0.0, 0.2])), 0.8, 0.05, far=True)
        case.update(
            n=n, N=N, graph=kind, edges=edges, ops=ops,
            placement=str(rng.choice(['greedy', 'trivial'])), partition=0,
            layout=sabre_params(rng, True, extended_set_size=0) if rng.random() < 0.5 else None,
            routing=sabre_params(rng, False, extended_set_size=0),
        )
    elif family == 'swapin':
        n = int(rng.integers(2, 8))
        N = int(rng.integers(n, min(9, n + 2) + 1))
        kind, edges = gen_graph(rng, N, gen.GRAPH_KINDS)
        ops = gen_ops(rng, n, 2, int(rng.integers(3, 25)), 0.1, 0.4, 0.05, swaps=0.2)
        case.update(
            n=n, N=N, graph=kind, edges=edges, ops=ops,
            placement=str(rng.choice(['greedy', 'trivial', 'static'])),
            partition=int(rng.choice([0, 0, 3])),
            layout=sabre_params(rng, True), routing=sabre_params(rng, False),
        )
    elif family == 'qutrit':
        n = int(rng.integers(2, 5))
        N = int(rng.integers(n, 6))
        kind, edges = gen_graph(rng, N, gen.GRAPH_KINDS)
        ops = gen_ops(rng, n, 3, int(rng.integers(3, 16)), 0.0, 0.6, 0.08)
        case.update(
            radix=3, n=n, N=N, graph=kind, edges=edges, ops=ops,
            placement=str(rng.choice(['greedy', 'trivial', 'static'])),
            partition=int(rng.choice([0, 0, 3])),
            layout=sabre_params(rng, True), routing=sabre_params(rng, False),
        )
    else:
        raise ValueError(family)
    fix_placement_choice(rng, case)
    return case


_SMALL: list[tuple[int, list[tuple[int, int]]]] | None = None


def small_graphs() -> list[tuple[int, list[tuple[int, int]]]]:
    """All connected labelled graphs on 2..5 vertices (1+4+38+728)."""
    global _SMALL
    if _SMALL is None:
        _SMALL = [(N, e) for N in range(2, 6) for e in M.all_connected_graphs(N)]
    return _SMALL


def small_case(seed: int, gidx: int, rep: int) -> dict[str, Any]:
    N, e = small_graphs()[gidx]
    rng = core.rng_for(seed, PID, 5, gidx, rep)
    n = int(rng.integers(2, N + 1))
    ops = gen_ops(rng, n, 2, int(rng.integers(3, 14)), float(rng.choice([0.0, 0.3])), 0.6, 0.05)
    placement = ['greedy', 'trivial', 'static'][(gidx + rep) % 3]
    if placement == 'trivial' and rng.random() < 0.8 and \
            not M.connected_in(M.adjacency(N, e), list(range(n))):
        placement = 'greedy'    # keep refusals (compiler restarts) rare
    return {
        'engine': 'sabre', 'family': 'small', 'idx': [gidx, rep], 'radix': 2,
        'n': n, 'N': N, 'graph': 'exhaustive', 'edges': [[a, b] for a, b in e],
        'ops': ops, 'placement': placement,
        'partition': int(rng.choice([0, 0, 3])),
        'layout': sabre_params(rng, True) if rng.random() < 0.9 else None,
        'routing': sabre_params(rng, False),
    }


def small_cases(seed: int, tier: str) -> list[dict[str, Any]]:
    G = small_graphs()
    if tier == 'thorough':
        return [small_case(seed, g, r) for g in range(len(G)) for r in range(3)]
    rng = core.rng_for(seed, PID, 5)
    k = COUNTS['quick']['small']
    # all graphs on <= 4 vertices + a sample of the 5-vertex ones
    base = [g for g in range(len(G)) if G[g][0] <= 4]
    rest = [g for g in range(len(G)) if G[g][0] == 5]
    pick = base + [int(x) for x in rng.choice(rest, max(0, k - len(base)), replace=False)]
    return [small_case(seed, g, 0) for g in pick]


# ------------------------------------------------------- compiler plumbing
class CaseTimeout(Exception):
    pass


# A raise inside a pre-processing pass that only *prepares* the input of the
# mapping passes (the partitioner that forms the blocks, the synthesis pass
# that EmbedAllPermutationsPass runs on every block) is not a statement about
# placement/layout/routing: it is recorded (counter + evidence list) and
# handed to the property that owns that pass, not reported as a C09 violation.
UPSTREAM_SITES = {
    'quick.py:run': 'QuickPartitioner',                 # C08
    'fourparam.py:gen_successors': 'QSearch_layer_generator',   # C10
}


def upstream_failure(info: dict[str, Any]) -> str | None:
    if info.get('site') in UPSTREAM_SITES:
        return UPSTREAM_SITES[info['site']]
    return None


def _alarm(signum: int, frame: Any) -> None:
    raise CaseTimeout()


def remote_error(e: BaseException) -> dict[str, Any]:
    """Unwrap 'Server connection unexpectedly closed' -> the worker-side
    traceback text that the runtime shipped as the ERROR payload."""
    chain = []
    x: BaseException | None = e
    while x is not None and len(chain) < 6:
        chain.append(x)
        x = x.__cause__ or x.__context__
    timeout = any(isinstance(c, CaseTimeout) for c in chain)
    text = ''
    for c in chain:
        s = str(c)
        if 'Traceback' in s:
            text = s
            break
    if not text:
        text = str(chain[-1])
    lines = [l for l in text.strip().splitlines() if l.strip()]
    # the exception line is the last unindented "Name: message" line (the
    # message itself may span several lines)
    last = lines[-1] if lines else ''
    for k in range(len(lines) - 1, -1, -1):
        m = re.match(r'^([A-Za-z_][\w.]*(?:Error|Exception|Interrupt|Exit|Warning|Timeout))\b:?\s?(.*)$', lines[k])
        if m:
            last = m.group(1) + ': ' + ' '.join([m.group(2)] + [x.strip() for x in lines[k + 1:]])
            break
    exc, _, msg = last.partition(':')
    frames = []
    for l in lines:
        l = l.strip()
        if l.startswith('File "') and '/bqskit/' in l:
            try:
                path = l.split('"')[1]
                func = l.rsplit(' in ', 1)[1]
                frames.append('%s:%s' % (os.path.basename(path), func))
            except IndexError:
                pass
    if not frames:
        frames = core.repo_frames(e)
    return {
        'timeout': timeout,
        'exc': exc.strip() if 'Traceback' in text else type(chain[-1]).__name__,
        'msg': msg.strip()[:300] if 'Traceback' in text else str(chain[-1])[:300],
        'site': frames[-1] if frames else core.raising_site(e),
        'frames': frames[-8:],
    }


def kill_tree(pid: int) -> None:
    """SIGKILL a process and its descendants (by recorded pid, /proc scan)."""
    kids: dict[int, list[int]] = {}
    try:
        for d in os.listdir('/proc'):
            if d.isdigit():
                try:
                    with open('/proc/%s/stat' % d) as f:
                        st = f.read()
                    ppid = int(st.rsplit(')', 1)[1].split()[1])
                    kids.setdefault(ppid, []).append(int(d))
                except (OSError, ValueError, IndexError):
                    pass
    except OSError:
        pass
    todo, seen = [pid], []
    while todo:
        x = todo.pop()
        seen.append(x)
        todo.extend(kids.get(x, []))
    for x in reversed(seen):
        try:
            os.kill(x, signal.SIGKILL)
        except OSError:
            pass


_SERVERS: list[Any] = []
STARTUP_TIMEOUT_S = 240


def _tracked_compiler(workers: int, env: dict[str, str]) -> Any:
    """compiledrv.PortCompiler whose server Popen is remembered, so that a
    server that never becomes ready can be killed by pid."""
    from vlib.compiledrv import PortCompiler

    class Tracked(PortCompiler):
        def _start_server(self, *a: Any, **k: Any) -> None:  # type: ignore
            super()._start_server(*a, **k)
            _SERVERS.append(self.p)

    return Tracked(workers, env=env)


class Driver:
    """One real attached Compiler per worker process; rebuilt after errors.
    Both start-up and every compile run under a SIGALRM watchdog (a runtime
    that never answers makes the case inconclusive, never a verdict)."""

    def __init__(self, workers: int, hashseed: int) -> None:
        self.workers = workers
        self.env = {'PYTHONHASHSEED': str(hashseed)}
        self.comp: Any = None
        self.dead = False

    def get(self) -> Any:
        if self.comp is not None:
            return self.comp
        if self.dead:
            raise RuntimeError('no compiler could be started in this worker')
        last: BaseException | None = None
        for _ in range(3):
            old = signal.signal(signal.SIGALRM, _alarm)
            signal.alarm(STARTUP_TIMEOUT_S)
            try:
                self.comp = _tracked_compiler(self.workers, self.env)
                return self.comp
            except BaseException as e:  # noqa
                signal.alarm(0)
                if isinstance(e, (KeyboardInterrupt, SystemExit)):
                    raise
                last = e
                while _SERVERS:
                    p = _SERVERS.pop()
                    if p is not None and p.poll() is None:
                        kill_tree(p.pid)
            finally:
                signal.alarm(0)
                signal.signal(signal.SIGALRM, old)
        self.dead = True
        raise RuntimeError('could not start a compiler: %r' % (last,))

    def drop(self) -> None:
        c, self.comp = self.comp, None
        if c is None:
            return
        p = getattr(c, 'p', None)
        old = signal.signal(signal.SIGALRM, _alarm)
        signal.alarm(20)
        try:
            c.close()
        except BaseException as e:  # noqa
            if isinstance(e, (KeyboardInterrupt, SystemExit)):
                raise
        finally:
            signal.alarm(0)
            signal.signal(signal.SIGALRM, old)
        if p is not None and p.poll() is None:
            kill_tree(p.pid)
        if p in _SERVERS:
            _SERVERS.remove(p)

    def compile(self, circuit: Any, wf: Any, timeout: int, data: Any = None) -> Any:
        comp = self.get()
        p = getattr(comp, 'p', None)
        old = signal.signal(signal.SIGALRM, _alarm)
        signal.alarm(int(timeout))
        try:
            return comp.compile(circuit, wf, request_data=True, data=data)
        except BaseException:
            signal.alarm(0)
            # the Compiler has closed itself; make sure its server and the
            # server's workers are gone (a busy worker survives SIGINT)
            self.comp = None
            if p is not None and p.poll() is None:
                kill_tree(p.pid)
            if p in _SERVERS:
                _SERVERS.remove(p)
            raise
        finally:
            signal.alarm(0)
            signal.signal(signal.SIGALRM, old)


# --------------------------------------------------------- SABRE evaluation
def eval_sabre(drv: Driver, case: dict[str, Any]) -> dict[str, Any]:
    res: dict[str, Any] = {'w': [], 'c': {}, 'nontrivial': False, 'inconclusive': None}

    def cnt(k: str, v: int = 1) -> None:
        res['c'][k] = res['c'].get(k, 0) + v

    def bad(w: dict[str, Any]) -> None:
        w = dict(w)
        w['case'] = case
        res['w'].append(w)

    n, N, radix = case['n'], case['N'], case['radix']
    adj = M.adjacency(N, case['edges'])
    circuit = M.build_circuit(n, radix, case['ops'])
    model = M.build_model(N, radix, case['edges'])
    trivial_ok = M.connected_in(adj, list(range(n)))
    cnt('sabre_cases')
    cnt('placement_kind:' + case['placement'])
    where = '%s/%s' % (case['family'], case['idx'])
    if case['placement'] == 'static':
        # Look at the static placement on its own first (no raise, no
        # compiler restart): which set does it hand to layout/routing?
        try:
            _, d2 = drv.compile(circuit, M.placement_only_workflow(case, model), SABRE_TIMEOUT_S)
        except BaseException as e:  # noqa
            if isinstance(e, (KeyboardInterrupt, SystemExit)):
                raise
            info = remote_error(e)
            if info['timeout']:
                res['inconclusive'] = 'watchdog: static placement of case %s did not finish in %d s' % (where, SABRE_TIMEOUT_S)
                cnt('timeouts')
                return res
            up = upstream_failure(info)
            if up:
                cnt('upstream_failure:' + up)
                res['upstream'] = dict(owner=up, family=case['family'], idx=case['idx'], **info)
                return res
            cnt('raised')
            bad(dict(kind='raised:%s:%s' % (info['exc'], info['site']), stage='placement', **info))
            return res
        r2 = M.records(d2)['placed']
        placed = r2['placement']
        cnt('static_placement_runs')
        if len(set(placed)) == n and not M.connected_in(adj, placed):
            if placed != list(range(n)):
                # the pass chose this set itself (SetModelPass's default is
                # range(n)); layout and routing refuse a disconnected set
                cnt('placement_disconnected_seen')
                bad(dict(
                    kind='placement:disconnected', pass_name='StaticPlacementPass',
                    placement=placed,
                    expected='a placement inducing a connected subgraph: layout and routing refuse anything else',
                ))
            else:
                # nothing found (or wall-clock cut-off): the pass leaves the
                # default first-n placement, which is disconnected on this
                # machine; the workflow then stops with a clean RuntimeError
                cnt('rejected_input:static_left_default_first_n_disconnected')
            return res
    try:
        out, data = drv.compile(circuit, M.sabre_workflow(case, model), SABRE_TIMEOUT_S)
    except BaseException as e:  # noqa
        if isinstance(e, (KeyboardInterrupt, SystemExit)):
            raise
        info = remote_error(e)
        if info['timeout']:
            res['inconclusive'] = 'watchdog: SABRE case %s did not finish in %d s' % (where, SABRE_TIMEOUT_S)
            cnt('timeouts')
            return res
        msg = info['msg']
        if case['placement'] == 'trivial' and not trivial_ok and 'trivial placement is not valid' in msg:
            cnt('rejected_input:trivial_placement_disconnected')
            return res
        if case['placement'] == 'static' and 'disconnected qudits' in msg:
            # the second run of the search hit its wall-clock cut-off and
            # fell back to the (disconnected) first-n placement
            cnt('rejected_input:static_cutoff_then_first_n_disconnected')
            return res
        up = upstream_failure(info)
        if up:
            cnt('upstream_failure:' + up)
            res['upstream'] = dict(owner=up, family=case['family'], idx=case['idx'], **info)
            return res
        cnt('raised')
        if 'disconnected qudits' in msg:
            # layout/routing refused the set the placement pass handed over
            cnt('placement_disconnected_seen')
            bad(dict(
                kind='placement:disconnected', pass_name=PASS_NAMES[case['placement']],
                placement=None, then='%s: %s' % (info['exc'], msg), **info,
            ))
            return res
        bad(dict(kind='raised:%s:%s' % (info['exc'], info['site']), **info))
        return res

    cnt('compiled')
    rec = M.records(data)
    inp = rec['input']['circuit']
    im = [int(x) for x in data.initial_mapping]
    fm = [int(x) for x in data.final_mapping]
    nops_in = inp.num_operations
    res['summary'] = {
        'n': n, 'N': N, 'graph': case['graph'], 'placement_pass': case['placement'],
        'placed': rec['placed']['placement'], 'laid': rec['laid']['placement'],
        'initial_mapping': im, 'final_mapping': fm,
        'ops_in': nops_in, 'ops_out': out.num_operations,
    }

    # (1) mappings + chosen placement
    placed = rec['placed']['placement']
    for w in M.sanity_mappings(n, N, placed, im, fm):
        bad(w)
    if len(placed) != n:
        bad(dict(kind='placement:length', placement=placed, want_len=n))
    elif not M.connected_in(adj, placed):
        cnt('placement_disconnected_seen')
        bad(dict(kind='placement:disconnected', pass_name=PASS_NAMES[case['placement']], placement=placed))
    cnt('placement_checked')
    if sorted(rec['laid']['placement']) != sorted(placed):
        bad(dict(kind='layout:placement_set_changed', before=placed, after=rec['laid']['placement']))
    if sorted(im) != sorted(rec['laid']['placement']) or sorted(fm) != sorted(im):
        bad(dict(kind='mapping:not_onto_placement', placement=rec['laid']['placement'], initial_mapping=im, final_mapping=fm))
    if len(set(im)) == n and not M.connected_in(adj, im):
        bad(dict(kind='placement:disconnected', pass_name='final', placement=im))
    if out.num_qudits != N or list(out.radixes) != [radix] * N:
        bad(dict(kind='output:width', got=out.num_qudits, want=N))
    # layout must not touch the circuit
    if M.per_qudit_sequences(rec['laid']['circuit']) != M.per_qudit_sequences(inp):
        bad(dict(kind='layout:circuit_changed'))
    cnt('layout_circuit_unchanged_checked')
    if res['w']:
        return res

    # (2) coupling
    ws, c2 = M.coupling_violations(out, adj)
    for w in ws[:3]:
        bad(w)
    for k, v in c2.items():
        cnt('out_' + k, v)
    cnt('coupling_checked')

    # (3) swap-stripping
    swaps_out = c2['swaps_out']
    if not M.has_swap(inp):
        ws, c3 = M.strip_swaps(inp, out, im, fm)
        for w in ws[:3]:
            bad(w)
        for k, v in c3.items():
            cnt(k, v)
        cnt('strip_checked')
    else:
        cnt('input_with_swaps_refsim_only')

    # (4) refsim
    if N <= REFSIM_MAX_N and len(set(im)) == n and len(set(fm)) == n:
        cost, leak = M.mapped_cost_of(inp, out, im, fm)
        tol = floor_for(out.num_operations)
        if cost > tol or leak > LEAK_TOL:
            bad(dict(
                kind='refsim:mapped_cost', cost=cost, leakage=leak, budget=tol,
                initial_mapping=im, final_mapping=fm,
            ))
        cnt('refsim_checked')
        if N > n:
            cnt('refsim_checked_wider_machine')

    # what was exercised
    esc = rec['routed']['counts'].get('uphill_calls', 0)
    if esc:
        cnt('routing_escape_cases')
        cnt('routing_escape_calls', esc)
    if rec['laid']['counts'].get('uphill_calls', 0):
        cnt('layout_escape_cases')
    cnt('routing_apply_swap_calls', rec['routed']['counts'].get('apply_swap', 0))
    if swaps_out:
        cnt('cases_with_routing_swaps')
    if rec['laid']['placement'] != placed:
        cnt('cases_layout_permuted_placement')
    if N > n:
        cnt('cases_machine_wider')
    if placed != list(range(n)):
        cnt('cases_placement_not_identity')
    if im != fm:
        cnt('cases_final_differs_from_initial')
    if case.get('partition', 0):
        cnt('cases_partitioned')
        cnt('blocks_routed', sum(1 for op in inp if isinstance(op.gate, M.CircuitGate)))
    if any(o[0] == 'BARRIER' for o in case['ops']):
        cnt('cases_with_barriers')
    if radix != 2:
        cnt('cases_qutrit')
    if case['layout'] is None:
        cnt('cases_no_layout_pass')
    res['nontrivial'] = bool(swaps_out or rec['laid']['placement'] != list(range(n)))
    return res



# ----------------------------------------------------------- PAM evaluation
PAM_1 = ['H', 'T', 'S', 'SX', 'U3', 'RZ', 'RY', 'X']
PAM_2 = ['CX', 'CX', 'CZ', 'CP', 'RZZ']


def make_pam_case(seed: int, idx: int, tier: str) -> dict[str, Any]:
    rng = core.rng_for(seed, PID, 6, idx)
    quick = tier == 'quick'
    # quick: one 2-qudit-block case and one 3-qudit-block case, both small
    if quick:
        bs, n = 2, 4
        N = n + (1 if idx % 2 == 0 else 0)
        depth = 10
        p3 = 0.0
    else:
        bs = int(rng.choice([2, 3, 3]))
        n = int(rng.choice([3, 4]))
        N = int(rng.integers(n, n + 2))
        # 3-qudit blocks are synthesised for every permutation by QSearch:
        # keep them shallow (a generic 3-qubit unitary takes minutes each)
        depth = int(rng.integers(5, 11)) if bs == 2 else int(rng.integers(4, 7))
        p3 = 0.15 if bs == 3 and idx % 4 == 0 else 0.0
    kind, edges = gen_graph(rng, N, ['line', 'line', 'star', 'ring', 'tree', 'all'] if not quick else ['line', 'star'])
    # Most cases avoid stand-alone single-qudit blocks: QSearch on a 1-qudit
    # target is flaky at threshold 1e-8 (raises 'Cannot expand a
    # single-qudit circuit', reported separately); a case that dies in the
    # pre-synthesis says nothing about mapping. 1 case in 5 keeps them.
    allow_1q_blocks = (idx % 5 == 4)
    ops: list[list[Any]] = []
    last2: list[int] | None = None
    for _ in range(depth):
        r = rng.random()
        if r < 0.08 and len(ops) > 1:
            k = int(rng.integers(2, n + 1))
            ops.append(['BARRIER', [int(x) for x in rng.choice(n, k, replace=False)], []])
            last2 = None
            continue
        if rng.random() < p3 and n >= 3 and not any(o[0] == 'CCX' for o in ops):
            name = 'CCX'
        elif rng.random() < (0.8 if quick else 0.6):
            name = str(rng.choice(PAM_2))
        else:
            name = str(rng.choice(PAM_1))
        if M.arity(name) == 1 and not allow_1q_blocks:
            if last2 is None:
                continue
            loc = [int(rng.choice(last2))]
        else:
            loc = [int(x) for x in rng.choice(n, M.arity(name), replace=False)]
        if M.arity(name) >= 2:
            last2 = loc
        ops.append([name, loc, gen.rand_params(rng, M.num_params(name), 'generic')])
    if not allow_1q_blocks:
        # every qudit takes part in a multi-qudit gate
        used = {q for o in ops if o[0] != 'BARRIER' and len(o[1]) >= 2 for q in o[1]}
        for q in range(n):
            if q not in used:
                ops.append(['CX', [q, (q + 1) % n], []])
    if quick and not any(o[0] == 'BARRIER' for o in ops):
        ops.insert(len(ops) // 2 + 1, ['BARRIER', [0, n - 1], []])
    io = [(False, True), (False, True), (True, False)]
    if bs == 2:
        io.append((True, True))
    ip, op_ = io[int(rng.integers(len(io)))]
    if quick:
        ip, op_ = False, True
    lay = sabre_params(rng, True)
    # small weights: a block permutation is only taken when it pays off in
    # the routing score; weight 1.0 practically switches permutations off
    lay['gate_count_weight'] = float(rng.choice([0.0, 0.3]))
    rou = sabre_params(rng, False)
    rou['gate_count_weight'] = 0.0 if quick else float(rng.choice([0.0, 0.0, 0.0, 0.1]))
    return {
        'engine': 'pam', 'family': 'pam', 'idx': idx, 'radix': 2,
        'n': n, 'N': N, 'graph': kind, 'edges': edges, 'ops': ops,
        'block_size': bs, 'variant': 'compile' if idx % 2 == 0 else 'placed',
        'input_perm': ip, 'output_perm': op_,
        'eps': float(rng.choice([1e-8, 1e-8, 1e-6])),
        'verify': bool(rng.random() < 0.4),
        'layout': lay, 'routing': rou,
        'seed': int(rng.integers(1, 2**31 - 1)),
    }


def eval_pam(drv: Driver, case: dict[str, Any], timeout: int) -> dict[str, Any]:
    res: dict[str, Any] = {'w': [], 'c': {}, 'nontrivial': False, 'inconclusive': None}

    def cnt(k: str, v: int = 1) -> None:
        res['c'][k] = res['c'].get(k, 0) + v

    def bad(w: dict[str, Any]) -> None:
        w = dict(w)
        w['case'] = case
        res['w'].append(w)

    n, N, radix = case['n'], case['N'], case['radix']
    eps = float(case['eps'])
    adj = M.adjacency(N, case['edges'])
    circuit = M.build_circuit(n, radix, case['ops'])
    model = M.build_model(N, radix, case['edges'])
    cnt('pam_cases')
    t0 = time.monotonic()
    try:
        out, data = drv.compile(circuit, M.pam_workflow(case, model), timeout, data={'seed': int(case['seed'])})
    except BaseException as e:  # noqa
        if isinstance(e, (KeyboardInterrupt, SystemExit)):
            raise
        info = remote_error(e)
        if info['timeout']:
            res['inconclusive'] = 'watchdog: a PAM case did not finish in %d s' % timeout
            cnt('timeouts')
            return res
        if 'Unable to find any valid permutated circuits' in info['msg']:
            # documented refusal of the routing pass ("try toggling topology
            # selection"): the synthesised results do not cover the sub-graph
            cnt('rejected_input:pam_no_permutation_data_for_subgraph')
            return res
        up = upstream_failure(info)
        if up:
            cnt('upstream_failure:' + up)
            res['upstream'] = dict(owner=up, family=case['family'], idx=case['idx'], **info)
            return res
        cnt('raised')
        bad(dict(kind='raised:%s:%s' % (info['exc'], info['site']), **info))
        return res
    res['wall_s'] = round(time.monotonic() - t0, 1)
    cnt('pam_compiled')
    cnt('pam_variant:' + case['variant'])
    rec = M.records(data)
    inp = rec['input']['circuit']
    im = [int(x) for x in data.initial_mapping]
    fm = [int(x) for x in data.final_mapping]
    laid, routed = rec['laid'], rec['routed']
    res['summary'] = {
        'engine': 'pam', 'n': n, 'N': N, 'graph': case['graph'], 'variant': case['variant'],
        'block_size': case['block_size'], 'blocks': inp.num_operations,
        'placement_at_routing': laid['placement'], 'initial_mapping': im,
        'final_mapping': fm, 'ops_out': out.num_operations, 'wall_s': res['wall_s'],
    }
    # (1) mappings, placement used by layout/routing
    for w in M.sanity_mappings(n, N, laid['placement'], im, fm):
        bad(w)
    if not M.connected_in(adj, laid['placement']):
        bad(dict(kind='placement:disconnected', pass_name='pam', placement=laid['placement']))
    if sorted(rec['pre']['placement']) != sorted(laid['placement']):
        bad(dict(kind='layout:placement_set_changed', before=rec['pre']['placement'], after=laid['placement']))
    if not set(im) <= set(laid['placement']) or not set(fm) <= set(laid['placement']):
        bad(dict(kind='mapping:not_onto_placement', placement=laid['placement'], initial_mapping=im, final_mapping=fm))
    if M.per_qudit_sequences(laid['circuit']) != M.per_qudit_sequences(rec['pre']['circuit']):
        bad(dict(kind='layout:circuit_changed'))
    pre_seq = M.per_qudit_sequences(rec['pre']['circuit'])
    in_seq = M.per_qudit_sequences(inp)
    if case['variant'] == 'placed' and pre_seq != in_seq:
        bad(dict(kind='pam:circuit_changed_before_layout'))
    if out.num_qudits != N:
        bad(dict(kind='output:width', got=out.num_qudits, want=N))
    cnt('placement_checked')
    if res['w']:
        return res

    # (3') block-level walk of the routing pass
    od = routed.get(M.PAM_OUT_KEY)
    if od is None:
        bad(dict(kind='pam:no_block_records'))
        return res
    ws, info = M.pam_walk(
        laid['circuit'], routed['circuit'], od,
        laid['final_mapping'], routed['final_mapping'], eps,
    )
    for w in ws[:3]:
        bad(w)
    cnt('pam_walk_checked')
    cnt('pam_blocks_checked', info['blocks'])
    cnt('pam_swaps_stripped', info['swaps'])
    cnt('pam_barriers_checked', info['barriers'])
    cnt('pam_nonidentity_block_perms', info['nonidentity_perms'])
    cnt('pam_blocks_synthesis_imprecise', info['blocks_synthesis_imprecise'])

    # (2) coupling of the final, unfolded circuit
    ws, c2 = M.coupling_violations(out, adj)
    for w in ws[:3]:
        bad(w)
    cnt('coupling_checked')
    cnt('pam_out_ops2', c2['ops2'])

    # (4) refsim end to end
    k = sum(1 for op in inp if isinstance(op.gate, M.CircuitGate))
    if N <= REFSIM_MAX_N and len(set(im)) == n and len(set(fm)) == n:
        cost, leak = M.mapped_cost_of(circuit, out, im, fm)
        e1 = max(eps, float(info['max_block_cost']))
        budget = max(floor_for(out.num_operations), (k + 1) ** 2 * e1)
        if cost > budget or leak > 2 * np.sqrt(2 * budget) + LEAK_TOL:
            bad(dict(
                kind='refsim:mapped_cost', cost=cost, leakage=leak, budget=budget,
                blocks=k, eps=eps, initial_mapping=im, final_mapping=fm,
            ))
        cnt('pam_refsim_checked')
        res['summary']['cost'] = cost
        res['summary']['budget'] = budget
    res['nontrivial'] = bool(info['swaps'] or info['nonidentity_perms'] or laid['placement'] != list(range(len(laid['placement']))))
    return res

# ------------------------------------------------------------ SeqPAM (two stages)
def make_seqpam_case(seed: int, idx: int, tier: str) -> dict[str, Any]:
    """Inputs for compile.py's two-stage SeqPAM workflow. The first stage
    (routing on the all-to-all relaxation) only ends with a non-identity
    permutation when a block is cheaper with permuted inputs, so the inputs
    contain dressed SWAPs (three alternating CNOTs) and plain SWAP gates."""
    rng = core.rng_for(seed, PID, 7, idx)
    n = 3 if idx % 2 == 0 else int(rng.choice([3, 4]))
    N = n + int(rng.integers(0, 2))
    kind, edges = gen_graph(rng, N, ['line', 'line', 'star'])
    ops: list[list[Any]] = []

    def one(q: int) -> None:
        name = str(rng.choice(['U3', 'RZ', 'RY', 'H', 'T']))
        ops.append([name, [q], gen.rand_params(rng, M.num_params(name), 'generic')])

    def dressed_swap(a: int, b: int) -> None:
        if rng.random() < 0.3:
            ops.append(['SWAP', [a, b], []])
            return
        for x, y in ((a, b), (b, a), (a, b)):
            ops.append(['CX', [x, y], []])

    nsw = int(rng.integers(1, 3))
    pos = sorted(int(x) for x in rng.choice(6, nsw, replace=False))
    for step in range(6):
        a, b = (int(x) for x in rng.choice(n, 2, replace=False))
        if step in pos:
            dressed_swap(a, b)
        else:
            name = str(rng.choice(['CX', 'CX', 'CZ']))
            ops.append([name, [a, b], []])
            one(a)
            one(b)
    used = {q for o in ops if len(o[1]) >= 2 for q in o[1]}
    for q in range(n):
        if q not in used:
            ops.append(['CX', [q, (q + 1) % n], []])
    return {
        'engine': 'seqpam', 'family': 'seqpam', 'idx': idx, 'radix': 2,
        'n': n, 'N': N, 'graph': kind, 'edges': edges, 'ops': ops,
        'block_size': 2, 'eps': 1e-8, 'optimization_level': 3,
        'num_layout_passes': int(rng.integers(1, 4)),
        'seed': int(rng.integers(1, 2**31 - 1)),
    }


def eval_seqpam(drv: Driver, case: dict[str, Any], timeout: int) -> dict[str, Any]:
    res: dict[str, Any] = {'w': [], 'c': {}, 'nontrivial': False, 'inconclusive': None}

    def cnt(k: str, v: int = 1) -> None:
        res['c'][k] = res['c'].get(k, 0) + v

    def bad(w: dict[str, Any]) -> None:
        w = dict(w)
        w['case'] = case
        res['w'].append(w)

    n, N, radix = case['n'], case['N'], case['radix']
    eps = float(case['eps'])
    adj = M.adjacency(N, case['edges'])
    circuit = M.build_circuit(n, radix, case['ops'])
    model = M.build_model(N, radix, case['edges'])
    cnt('seqpam_cases')
    t0 = time.monotonic()
    try:
        out, data = drv.compile(circuit, M.seqpam_workflow(case, model), timeout, data={'seed': int(case['seed'])})
    except BaseException as e:  # noqa
        if isinstance(e, (KeyboardInterrupt, SystemExit)):
            raise
        info = remote_error(e)
        if info['timeout']:
            res['inconclusive'] = 'watchdog: a SeqPAM case did not finish in %d s' % timeout
            cnt('timeouts')
            return res
        up = upstream_failure(info)
        if up:
            cnt('upstream_failure:' + up)
            res['upstream'] = dict(owner=up, family=case['family'], idx=case['idx'], **info)
            return res
        cnt('raised')
        bad(dict(kind='raised:%s:%s' % (info['exc'], info['site']), **info))
        return res
    res['wall_s'] = round(time.monotonic() - t0, 1)
    cnt('seqpam_compiled')
    rec = M.records(data)
    im = [int(x) for x in data.initial_mapping]
    fm = [int(x) for x in data.final_mapping]
    placement = [int(x) for x in data.placement]
    s1 = rec.get('stage1')
    res['summary'] = {
        'engine': 'seqpam', 'n': n, 'N': N, 'graph': case['graph'], 'placement': placement,
        'stage1_final_mapping': s1['final_mapping'] if s1 else None,
        'initial_mapping': im, 'final_mapping': fm, 'ops_out': out.num_operations, 'wall_s': res['wall_s'],
    }
    if s1 is None:
        bad(dict(kind='seqpam:no_stage1_record'))
        return res
    stage1_permuted = list(s1['final_mapping']) != list(s1['initial_mapping'])
    if stage1_permuted:
        cnt('seqpam_first_stage_ended_permuted')
    for w in M.sanity_mappings(n, N, placement, im, fm):
        bad(w)
    if not M.connected_in(adj, placement):
        bad(dict(kind='placement:disconnected', pass_name='seqpam', placement=placement))
    if out.num_qudits != N:
        bad(dict(kind='output:width', got=out.num_qudits, want=N))
    cnt('placement_checked')
    if res['w']:
        return res
    ws, c2 = M.coupling_violations(out, adj)
    for w in ws[:3]:
        bad(w)
    cnt('coupling_checked')
    if N <= REFSIM_MAX_N and len(set(im)) == n and len(set(fm)) == n:
        cost, leak = M.mapped_cost_of(circuit, out, im, fm)
        k = sum(1 for o in case['ops'] if len(o[1]) >= 2)
        budget = max(floor_for(out.num_operations), (2 * k + 1) ** 2 * eps)
        if cost > budget or leak > 2 * np.sqrt(2 * budget) + LEAK_TOL:
            bad(dict(
                kind='refsim:mapped_cost', pass_name='seqpam', cost=cost, leakage=leak, budget=budget,
                initial_mapping=im, final_mapping=fm, stage1_final_mapping=s1['final_mapping'],
            ))
        cnt('seqpam_refsim_checked')
        if stage1_permuted:
            cnt('seqpam_refsim_checked_after_permuting_first_stage')
        res['summary']['cost'] = cost
        res['summary']['budget'] = budget
    res['nontrivial'] = bool(stage1_permuted or im != fm)
    return res


# ------------------------------------------------------------ batch worker
def run_batch(arg: tuple[list[dict[str, Any]], int, str]) -> list[dict[str, Any]]:
    cases, hashseed, tier = arg
    out = []
    retried = 0
    drv = Driver(4 if cases and cases[0]['engine'] in ('pam', 'seqpam') else 1, hashseed)
    try:
        for case in cases:
            try:
                for attempt in (0, 1):
                    if case['engine'] == 'pam':
                        r = eval_pam(drv, case, PAM_TIMEOUT_S[tier])
                    elif case['engine'] == 'seqpam':
                        r = eval_seqpam(drv, case, PAM_TIMEOUT_S[tier])
                    else:
                        r = eval_sabre(drv, case)
                    # a watchdog expiry is usually a starved or half-started
                    # runtime: try once more on a fresh compiler
                    if not (r.get('inconclusive') or '').startswith('watchdog') or attempt:
                        break
                    retried += 1
            except BaseException as e:  # noqa: harness failure, never a verdict
                if isinstance(e, (KeyboardInterrupt, SystemExit)):
                    raise
                r = {
                    'w': [], 'c': {}, 'nontrivial': False,
                    'inconclusive': 'harness error in case %s/%s: %s: %s @ %s' % (
                        case['family'], case['idx'], type(e).__name__, str(e)[:200], core.short_tb(e, 3),
                    ),
                }
                drv.drop()
            if retried:
                r['c']['watchdog_retries'] = r['c'].get('watchdog_retries', 0) + retried
                retried = 0
            r['sig'] = core.sig_of(case)
            r['family'] = case['family']
            if r.get('summary') is not None and r.get('nontrivial'):
                r['case'] = case
            out.append(r)
    finally:
        drv.drop()
    return out


def chunks(xs: list[Any], k: int) -> list[list[Any]]:
    return [xs[i:i + k] for i in range(0, len(xs), k)]


def merge(run: core.Run, r: dict[str, Any]) -> None:
    for k, v in r['c'].items():
        run.count(k, v)
    if r.get('upstream'):
        ups = run.extra.setdefault('upstream_failures', [])
        if len(ups) < 20:
            ups.append(core.jsonable(r['upstream']))
    if r.get('inconclusive'):
        run.inconclusive_because(r['inconclusive'])
    for w in r['w']:
        run.violation(w)
    run.case(r['sig'], nontrivial=bool(r.get('nontrivial')), sample=None)


def main(tier: str, seed: int, replay: str | None = None) -> int:
    run = core.Run(PID, tier, seed)
    if replay:
        return do_replay(run, replay)
    counts = COUNTS[tier]
    hashseed = seed % 4
    nproc = int(os.environ.get('VERIF_PROCS', '0')) or min(16, os.cpu_count() or 4)

    cases: list[dict[str, Any]] = []
    for fam in ('rand', 'escape', 'linefar', 'swapin', 'qutrit'):
        cases += [make_case(seed, fam, i) for i in range(counts[fam])]
    cases += small_cases(seed, tier)
    pam_cases = [make_pam_case(seed, i, tier) for i in range(counts['pam'])]

    # PAM batches first (long), then SABRE batches fill the remaining workers
    per = max(8, min(60, len(cases) // (nproc * 3) + 1))
    run.max_samples = 6
    pam_par = 2 if tier == 'quick' else 5
    pam_batches = [[] for _ in range(min(pam_par, len(pam_cases)))]
    for i, c in enumerate(pam_cases):
        pam_batches[i % len(pam_batches)].append(c)
    seqpam_cases = [make_seqpam_case(seed, i, tier) for i in range(counts['seqpam'])]
    sq_par = 2 if tier == 'quick' else 5
    sq_batches = [[] for _ in range(min(sq_par, len(seqpam_cases)))]
    for i, c in enumerate(seqpam_cases):
        sq_batches[i % len(sq_batches)].append(c)
    batches = [(b, hashseed, tier) for b in pam_batches] + \
        [(b, hashseed, tier) for b in sq_batches] + \
        [(b, hashseed, tier) for b in chunks(cases, per)]
    t0 = time.monotonic()
    try:
        results = core.pmap(run_batch, batches, workers=nproc)
    except BaseException as e:  # noqa
        if isinstance(e, (KeyboardInterrupt, SystemExit)):
            raise
        run.inconclusive_because('worker pool failed: %s: %s' % (type(e).__name__, str(e)[:200]))
        results = []
    run.extra['pool_wall_s'] = round(time.monotonic() - t0, 1)

    for batch in results:
        for r in batch:
            merge(run, r)
            if r.get('summary') is not None and r.get('nontrivial'):
                fams = {s.get('family') for s in run.samples}
                if r['family'] not in fams and len(run.samples) < run.max_samples:
                    run.samples.append(core.jsonable({
                        'family': r['family'], 'input': r.get('case'),
                        'observed': r['summary'],
                    }))

    for c, m in (
        ('compiled', 50), ('placement_checked', 50), ('coupling_checked', 50),
        ('strip_checked', 40), ('refsim_checked', 40), ('swaps_stripped', 50),
        ('out_ops3plus', 10), ('cases_with_routing_swaps', 20),
        ('cases_layout_permuted_placement', 10), ('cases_machine_wider', 10),
        ('cases_partitioned', 5), ('cases_with_barriers', 5),
        ('routing_escape_cases', 2), ('refsim_checked_wider_machine', 10),
        ('input_with_swaps_refsim_only', 3), ('cases_qutrit', 3),
        ('pam_compiled', 1), ('pam_walk_checked', 1), ('pam_refsim_checked', 1),
        ('pam_blocks_checked', 1),
        ('seqpam_compiled', 1), ('seqpam_refsim_checked', 1),
        ('seqpam_refsim_checked_after_permuting_first_stage', 1),
    ):
        run.require(c, m)
    if tier == 'thorough':
        # the block-permutation bookkeeping is only exercised when the
        # routing actually takes a non-identity permutation
        run.require('pam_nonidentity_block_perms', 1)
        run.require('pam_swaps_stripped', 1)
    return run.finish(
        rule=(
            'seeded circuits of 2-8 qudits (1/2/3-qudit gates, barriers, optional QuickPartitioner blocks; '
            'qutrit circuits; inputs with SWAPs decided by refsim only) x connected coupling graphs on <=10 qudits '
            '(gen.graph_edges kinds randomly relabelled, machines up to 3 qudits wider; all connected labelled graphs on <=%s vertices%s) '
            'x placement pass x SABRE parameters, plus PAM cases (second half of SeqPAM with recorders) and SeqPAM cases (compile.py\'s whole two-stage workflow on inputs with dressed SWAPs, so that the second routing composes with a first stage that ended permuted); distinct = distinct case recipe; non-trivial = routing inserted '
            'a swap or the final placement is not the identity (PAM: a swap was inserted or a block permutation is not the identity)'
            % ('5', ' exhaustively, 3 circuits each' if tier == 'thorough' else ' (<=4 exhaustive, 5 sampled)')
        ),
        assumptions=[
            'gate matrices come from each operation\'s own get_unitary (C18 checks them)',
            'barriers are fences, not operations: they are compared by position but not required to sit on coupled qudits',
            'a block whose gates are all single-qudit is not a multi-qudit operation',
            'TrivialPlacementPass refusing a disconnected first-n set, and StaticPlacementPass leaving the default first-n placement when it finds nothing, are documented refusals (rejected_input)',
            'refsim isometry check only for machines of <= %d qudits; wider machines are decided by the structural oracles' % REFSIM_MAX_N,
            'PAM budget: (k+1)^2 * success_threshold with k = number of synthesised blocks (DESIGN 2.2)',
        ],
        extra={'exhaustive': False, 'exhaustive_subspace': 'connected labelled coupling graphs on 2..5 vertices (771)' if tier == 'thorough' else 'connected labelled coupling graphs on 2..4 vertices (43)'},
    )


def do_replay(run: core.Run, path: str) -> int:
    w = json.load(open(path))['witness']
    case = w.get('case')
    if not case:
        print('replay file has no case recipe')
        return 2
    res = run_batch(([case], run.seed % 4, run.tier))
    for r in res:
        merge(run, r)
        print('replayed %s case: %d witnesses %s' % (case['engine'], len(r['w']), [x['kind'] for x in r['w']]))
    run.case('replay-marker')
    return run.finish(rule='replay of one recorded case', min_distinct=1)
