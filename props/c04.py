"""C04 -- Circuit editing calls have their documented effect on program order.

History monitor (vlib/history.py): random histories of 10-80 public editing
calls on 2-7 qudits (radix 2-4, 10 % deliberately invalid arguments) plus all
call words of length <= 3 / <= 4 over four reduced alphabets. After every call
the real circuit's per-qudit operation sequences (read through the public
grid API) must equal what a plain list-of-cycles model derives from the
call's documented meaning; return values and documented postconditions are
checked; refsim confirms: structure-only calls keep the unitary, renumbering
conjugates it by the permutation, inverse composes to the identity, and the
unitary equals that of the model's linear order.
"""
from __future__ import annotations

from vlib import core
from vlib import history

PID = 'C04'
#            random histories   exhaustive word length
TABLE = {
    'quick':    {'random': 1000, 'exhaustive_len': 3},
    'thorough': {'random': 20000, 'exhaustive_len': 4},
}
FLAGS = {'order': True, 'views': False, 'unitary': True, 'drain': False}


def main(tier: str, seed: int, replay: str | None = None) -> int:
    return history.run_property(
        PID, tier, seed, replay, TABLE, FLAGS,
        rule='one case = one editing history executed call by call against the list-of-cycles model; distinct = distinct (initial radixes, sequence of call names) for the random tier and distinct word for the exhaustive tier; non-trivial = >= 5 effective (state-changing) calls of which >= 1 structural (fold/unfold/straighten/compress/qudit edit/batch/circuit insertion) for random histories, >= 1 effective letter for exhaustive words',
        assumptions=[
            'gate matrices come from each operation\'s own get_unitary (their correctness is C18)',
            'documented meaning of each call as written in the docstrings; where they leave the result open (cycle layout; which of several equal gates remove(gate) takes; order of a replacement relative to concurrent operations on new qudits; regions cutting through an operation; negative point indices for replace/unfold; renumbering that changes a qudit\'s radix) nothing is compared',
            'a ValueError from check_region/get_region on a region the model deems valid is counted (rejected_valid_region), not reported: the documentation lets the implementation be conservative',
            'CircuitGate structure is read through gate._circuit (no public accessor exists)',
        ],
        require=[
            ('grid_reads', 100), ('refsim_unitary_cmp', 100),
            ('refsim_model_cmp', 20), ('refsim_conjugation_cmp', 1),
            ('refsim_inverse_cmp', 1), ('model_valid', 100),
            ('effective:fold', 5), ('effective:unfold', 5),
            ('noop:straighten', 1), ('effective:insert_circuit', 5),
            ('effective:batch_replace', 1), ('effective:renumber_qudits', 1),
        ],
    )


if __name__ == '__main__':
    core.main_entry(main)
