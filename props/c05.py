"""C05 -- All views of a Circuit stay mutually consistent after every edit.

Same history engine as C04 (vlib/history.py). After every call -- raising
or not -- the grid read through the public API is compared with next / prev /
front / rear / first_on / last_on, the counters (num_operations, len,
gate_counts, gate_set, num_params, count, active_qudits, coupling_graph,
depth, multi_qudit_depth), the iteration orders (DAG, grid, reverse) and
copy / == / hash. A call whose arguments the reference model deems valid
must not fail with an internal error. At the end of each history every
operation is popped one by one (must succeed; the coupling graph must follow;
the circuit must end empty with no edges).
"""
from __future__ import annotations

from vlib import core
from vlib import history

PID = 'C05'
#            random histories   exhaustive word length
TABLE = {
    'quick':    {'random': 1000, 'exhaustive_len': 3},
    'thorough': {'random': 20000, 'exhaustive_len': 4},
}
FLAGS = {'order': True, 'views': True, 'unitary': False, 'drain': True}


def main(tier: str, seed: int, replay: str | None = None) -> int:
    return history.run_property(
        PID, tier, seed, replay, TABLE, FLAGS,
        rule='one case = one editing history with the view invariants evaluated after every call and a final pop-everything phase; distinct = distinct (initial radixes, sequence of call names) for the random tier and distinct word for the exhaustive tier; non-trivial = >= 5 effective (state-changing) calls of which >= 1 structural for random histories, >= 1 effective letter for exhaustive words',
        assumptions=[
            'the grid (num_cycles, is_point_idle, circuit[c, q]) is the reference view; every other view is recomputed from it',
            'validity of arguments is decided by the reference model\'s reading of the documented preconditions; exceptions on arguments it deems invalid are counted as rejected_input (the views must still agree afterwards)',
            'hidden edge multiplicities of coupling_graph are only observable through removal: checked by popping every operation at the end of a history',
            'circuits are unhashable (no __hash__): hash consistency is checked only if hash() works',
        ],
        require=[
            ('invariant_evals', 100), ('drain_pops', 50),
            ('drained_histories', 10), ('rejected_input', 10),
            ('copy_alias_probe', 1), ('model_valid', 100),
            ('effective:fold', 5), ('effective:pop_qudit', 1),
            ('effective:renumber_qudits', 1), ('noop:straighten', 1),
        ],
    )


if __name__ == '__main__':
    core.main_entry(main)
