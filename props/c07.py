"""C07 — every awaited runtime future resolves exactly once with its own result.

Engine: simnet (vlib/simnet): the real Worker / AttachedServer /
DetachedServer / Manager / Compiler classes run over an in-memory transport
under a seeded serialized scheduler (delivery order, thread interleaving) and,
in line mode, pre-emption of a worker thread between source lines.
Oracle: offline checker over the recorded history (await values, next()
batches, execution log, client results, error messages, progress).
"""
from __future__ import annotations

from typing import Any

from vlib import core
from vlib.simnet import driver
from vlib.simnet import runner
from vlib.simnet import scen

PID = 'C07'

BUDGET = {
    # tier: (random scenarios, random line-mode scenarios, systematic bases, max points per base)
    'quick': (400, 250, 3, 260),
    'thorough': (2500, 1800, 9, 400),
}


def make_scenario(seed: int, idx: int, family: str) -> dict:
    rng = core.rng_for(seed, PID, {'rand': 1, 'line': 2, 'base': 3}[family], idx)
    topo = driver.topology(rng)
    if family == 'base':
        topo = {'kind': 'attached', 'workers': int(rng.integers(2, 4))}
        if idx % 3 == 2:
            topo = {'kind': 'detached', 'managers': [2], 'nested': False}
    raises = family == 'rand' and rng.random() < 0.12
    nclients = 1
    if topo['kind'] == 'detached' and rng.random() < 0.4:
        nclients = int(rng.integers(2, 4))
    clients = []
    feats: set[str] = set()
    for c in range(nclients):
        for _ in range(50):
            g = scen.TreeGen(rng, 'c%dt' % c, max_tasks=int(rng.integers(4, 30 if family != 'base' else 12)),
                             cancel=False, raises=raises, nexts=True, unawaited=True, wide=bool(rng.random() < 0.3),
                             logs=(family == 'rand' and idx % 3 == 0))
            tree = g.tree(int(rng.integers(1, 4)))
            if family != 'base' or driver.has_multi_await(tree):
                break
        feats |= g.features
        clients.append({'name': 'c%d' % c, 'ops': [['connect'], ['compile', tree], ['quiesce', 'done'], ['close']]})
    sc = driver.sched_params(rng)
    sc.update({'topology': topo, 'clients': clients, 'features': sorted(feats)})
    if family == 'line':
        sc['line'] = {'random_p': float(rng.choice([0.002, 0.005, 0.01])), 'budget': int(rng.integers(1, 4)), 'hold': int(rng.choice([3, 8, 30, 100000]))}
    if family == 'base':
        sc['policy'] = 'eager'
        sc['inflight'] = False
    return sc


def judge(sc: dict, obs: dict) -> tuple[list[dict], str | None]:
    inc = driver.sim_failed(obs)
    if inc:
        return [], inc
    w: list[dict] = []
    w += scen.check_values(sc, obs)
    w += scen.check_compile_results(sc, obs)
    w += scen.check_progress(sc, obs)
    w += scen.check_no_internal_errors(sc, obs)
    return w, None


def nontrivial(sc: dict, obs: dict) -> bool:
    workers_used = len({wid for _, wid, ev in obs.get('exec_log', []) if ev == 'start'})
    remote = sum(1 for m in obs.get('msglog', []) if m['ev'] == 'recv' and m['msg'][0] == 'RESULT' and m['dst'].startswith('w'))
    return workers_used >= 2 and remote >= 1


# ------------------------------------------------ real processes (procnet)
PROC_BUDGET = {'quick': 8, 'thorough': 60}


def procnet_case(arg: tuple[int, int]) -> dict:
    """One real runtime (attached, or detached with managers) on private
    ports, shortened thread switch interval in every runtime process, 6-14
    trees submitted in waves of concurrent compilations; every returned value
    is compared with the interpreter of the documented semantics."""
    from vlib import procnet as P
    from vlib.simnet import workloads as WL
    seed, idx = arg
    rng = core.rng_for(seed, PID, 30, idx)
    trees, expected = [], []
    for t in range(int(rng.integers(6, 15))):
        g = scen.TreeGen(rng, 'p%dt' % t, max_tasks=int(rng.integers(6, 40)), cancel=False, raises=False, nexts=True,
                         unawaited=bool(rng.random() < 0.5), wide=bool(rng.random() < 0.4))
        tree = g.tree(int(rng.integers(1, 4)))
        val, _ = WL.interpret(tree)
        trees.append(tree)
        expected.append(val)
    topo = str(rng.choice(['attached', 'attached', 'detached']))
    case: dict[str, Any] = {
        'topology': topo, 'trees': trees, 'wave': int(rng.choice([1, 2, 4, 8])), 'reverse_fetch': bool(rng.random() < 0.5),
        'env': {'VERIF_INJECT': '1', 'VERIF_MON': 'switch', 'VERIF_SWITCHINT': str(rng.choice(['0.005', '0.0001', '0.00001', '0.000001']))},
    }
    if topo == 'attached':
        case['workers'] = int(rng.integers(2, 5))
    else:
        case['managers'] = [[2], [1, 1], [2, 2], [3, 1]][int(rng.integers(4))]
    rec = P.stress_case(case, expected)
    rec['idx'] = idx
    rec['case'] = {k: v for k, v in case.items() if k != 'trees'}
    rec['case']['ntrees'] = len(trees)
    rec['tasks'] = sum(scen.count_tasks(t) for t in trees)
    return rec


def _points(b: dict) -> list[dict]:
    return driver.systematic_points(b)


def main(tier: str, seed: int, replay: str | None = None) -> int:
    run = core.Run(PID, tier, seed)
    if replay:
        import json
        w = json.load(open(replay)).get('witness', {})
        if w.get('family') == 'procnet':
            rec = procnet_case((w['procnet']['seed'], w['procnet']['idx']))
            run.case('procnet-replay')
            run.case('procnet-replay-pad')
            for x in rec['witness']:
                run.violation(dict(x, family='procnet', procnet=w['procnet']))
            print('replayed real-process case: returned=%s correct=%s witnesses=%s' % (rec['returned'], rec['correct'], [x['kind'] for x in rec['witness']]))
            return run.finish(rule='replay of one real-process stress case (timing is not reproducible; the case is)', assumptions=[])
        return driver.replay_main(run, replay, judge, nontrivial)
    n_rand, n_line, n_base, max_pts = BUDGET[tier]
    scs = [(make_scenario(seed, i, 'rand'), 'rand') for i in range(n_rand)]
    scs += [(make_scenario(seed, i, 'line'), 'line') for i in range(n_line)]
    bases = [make_scenario(seed, i, 'base') for i in range(n_base)]
    for pts in core.pmap(_points, bases, workers=min(8, len(bases))):
        scs += [(s, 'systematic') for s in pts[:max_pts]]
    results = runner.run_many([s for s, _ in scs])
    acc = driver.Accountant(run)
    for (sc, fam), obs in zip(scs, results):
        acc.add(sc, obs, fam, judge, nontrivial)
    acc.finish_extra()
    n_proc = PROC_BUDGET[tier]
    precs = core.pmap(procnet_case, [(seed, i) for i in range(n_proc)], workers=4)
    for rec in precs:
        run.case(core.sig_of(('procnet', rec['idx'], rec['case'])), nontrivial=rec['correct'] >= 3,
                 sample={'family': 'procnet', 'case': rec['case'], 'returned': rec['returned'], 'correct': rec['correct'], 'events': rec['events'][:6]} if rec['idx'] < 2 else None)
        run.count('executions:procnet')
        run.count('procnet_topology:' + rec['case']['topology'])
        run.count('procnet_switch_interval:' + rec['case']['env']['VERIF_SWITCHINT'])
        run.count('procnet_results_compared', rec['returned'])
        run.count('procnet_results_correct', rec['correct'])
        run.count('procnet_task_bodies', rec['tasks'])
        want = float(rec['case']['env']['VERIF_SWITCHINT'])
        seen = rec.get('switch_interval_seen')
        if isinstance(seen, float) and abs(seen - want) <= 0.2 * want + 1e-9:
            run.count('procnet_switch_interval_confirmed_in_worker')
        if rec.get('inconclusive'):
            run.count('procnet_inconclusive')
            run.extra.setdefault('procnet_inconclusive_reasons', []).append('case %d: %s' % (rec['idx'], rec['inconclusive']))
        for x in rec['witness']:
            x = dict(x)
            x['family'] = 'procnet'
            x['procnet'] = {'seed': seed, 'idx': rec['idx']}
            x['case'] = rec['case']
            run.violation(x)
    if run.counters.get('procnet_inconclusive', 0) > 0.3 * n_proc:
        run.inconclusive_because('%d of %d real-process cases were inconclusive' % (run.counters['procnet_inconclusive'], n_proc))
    run.require('procnet_results_compared', 10)
    run.require('procnet_switch_interval_confirmed_in_worker', 1)
    for c in ('deliveries', 'task_bodies_run', 'awaits_checked', 'preemptions', 'executions:systematic'):
        run.require(c, 1)
    return run.finish(
        rule='scenario = (task tree from the grammar submit/map/await/next/unawaited[/raise], topology attached 1-4 workers or detached 1-3 managers x 1-3 workers (+nested), 1-3 clients, scheduler policy, seed); families: random delivery orders; random line-level pre-emption (budget<=3); systematic single pre-emption at every (thread,function,line,occurrence<=2) of the worker await/result/step/submit paths of base runs with a short and an unbounded hold. distinct = (tree shapes, topology, delivery-order hash, pre-emption points); non-trivial = >=2 workers executed bodies and >=1 result was routed to another worker. Real-process family (procnet): the same tree grammar on real bqskit.runtime processes over real sockets (attached 2-4 workers, or detached managers), 6-14 compilations per runtime in waves of 1-8 concurrent ones, thread switch interval 5ms..1us in every runtime process; every returned value compared with the interpreter; hang = call not returned AND all processes asleep with unchanged CPU time',
        assumptions=driver.SIM_ASSUMPTIONS,
    )
