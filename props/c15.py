"""C15 — scheduler bookkeeping stays in bounds and assigns every task exactly once.

Engine: simnet. The counters are internal: the harness reads them on every
server/manager whose main thread is parked in select() (i.e. between
handlers, never mid-update) after every scheduler step, and at quiescence
compares the boss's belief with the ground truth in the recorded history.
"""
from __future__ import annotations

from typing import Any

from vlib import core
from vlib.simnet import driver
from vlib.simnet import runner
from vlib.simnet import scen

PID = 'C15'

BUDGET = {
    # tier: (no-cancel scenarios, cancel scenarios, line-mode scenarios)
    'quick': (450, 250, 150),
    'thorough': (3500, 2000, 1500),
}


def make_scenario(seed: int, idx: int, family: str) -> dict:
    rng = core.rng_for(seed, PID, {'plain': 1, 'cancel': 2, 'line': 3}[family], idx)
    sc = driver.sched_params(rng)
    # crossing-heavy schedules: starvation holds WAITING / SUBMIT_BATCH back
    sc['policy'] = str(rng.choice(['starve', 'starve', 'uniform', 'threadfirst', 'eager']))
    sc['starve_prob'] = float(rng.choice([0.1, 0.2, 0.35]))
    sc['inflight'] = bool(rng.random() < 0.75)
    topo = driver.topology(rng, p_attached=0.5)
    feats: set[str] = set()
    clients = []
    nclients = 1 if topo['kind'] == 'attached' else int(rng.integers(1, 3))
    for c in range(nclients):
        g = scen.TreeGen(rng, 'c%dt' % c, max_tasks=int(rng.integers(6, 40)), cancel=(family == 'cancel' or (family == 'line' and rng.random() < 0.5)),
                         raises=False, nexts=True, unawaited=(family != 'plain'), wide=bool(rng.random() < 0.6))
        tree = g.tree(int(rng.integers(1, 4)))
        feats |= g.features
        clients.append({'name': 'c%d' % c, 'ops': [['connect'], ['compile', tree], ['quiesce', 'done'], ['close']]})
    if family == 'line':
        sc['line'] = {'random_p': float(rng.choice([0.002, 0.005])), 'budget': int(rng.integers(1, 4)), 'hold': int(rng.choice([3, 8, 30, 100000]))}
    sc.update({'topology': topo, 'clients': clients, 'features': sorted(feats), 'family': family})
    return sc


def crossings(obs: dict) -> int:
    """Number of WAITING messages that crossed a SUBMIT_BATCH in flight on
    the same connection (the race the read receipt exists for)."""
    n = 0
    sends: dict[tuple, list[tuple[int, str, int]]] = {}
    recv_step: dict[int, int] = {}
    for m in obs.get('msglog', []):
        if m['ev'] == 'recv' and 'seq' in m:
            recv_step[m['seq']] = m['step']
    for m in obs.get('msglog', []):
        if m['ev'] != 'send' or 'seq' not in m:
            continue
        k = m['msg'][0]
        if k == 'WAITING':
            sends.setdefault((m['src'], m['dst']), []).append((m['step'], 'W', m['seq']))
        elif k in ('SUBMIT_BATCH', 'SUBMIT'):
            sends.setdefault((m['dst'], m['src']), []).append((m['step'], 'S', m['seq']))
    for key, evs in sends.items():
        ws = [(st, sq) for st, kind, sq in evs if kind == 'W']
        ss = [(st, sq) for st, kind, sq in evs if kind == 'S']
        for wst, wsq in ws:
            wr = recv_step.get(wsq)
            if wr is None:
                continue
            for sst, ssq in ss:
                sr = recv_step.get(ssq)
                if sr is None:
                    continue
                # both in flight at the same time, in opposite directions
                if sst < wr and wst < sr:
                    n += 1
                    break
    return n


def judge(sc: dict, obs: dict) -> tuple[list[dict], str | None]:
    inc = driver.sim_failed(obs)
    if inc:
        return [], inc
    w: list[dict] = []
    for v in obs.get('inv_violations', []):
        x = dict(v)
        x['kind'] = 'counter:' + v['kind']
        w.append(x)
    for e in obs.get('sys_errors', []):
        w.append({'kind': 'node:system_error', 'proc': e['proc'], 'site': scen._err_site(e['text']), 'text': e['text'][-500:]})
    for u in obs.get('uncaught', []):
        w.append({'kind': 'node:uncaught_exception', 'proc': u['proc'], 'thread': u['thread'], 'exc': u['exc'], 'msg': u['msg'], 'tb': u['tb'][-500:]})
    dup, missing = scen.check_assignment(sc, obs)  # type: ignore
    w += dup
    completed_ok = all(c['outcome'] == 'value' for c in obs.get('clients', []) if c['op'] == 'compile')
    if completed_ok and missing:
        w.append({'kind': 'assign:task_never_delivered', 'tasks': [list(a) for a in missing][:8], 'count': len(missing)})
    # a correct result is still required (wrong routing shows up here)
    w += scen.check_compile_results(sc, obs)
    w += scen.check_progress(sc, obs)
    for sn in obs.get('snaps', []):
        if sn['label'] == 'done':
            pending = [c for c in obs.get('clients', []) if c['outcome'] == 'open' and c['op'] != 'close']
            if not pending:
                w += scen.check_counters_quiescent(sn, obs)
    return w, None


def nontrivial(sc: dict, obs: dict) -> bool:
    batches = sum(1 for m in obs.get('msglog', []) if m['ev'] == 'recv' and m['msg'][0] == 'SUBMIT_BATCH' and m['dst'].startswith('w'))
    waits = sum(1 for m in obs.get('msglog', []) if m['ev'] == 'recv' and m['msg'][0] == 'WAITING')
    return batches >= 3 and waits >= 2


def main(tier: str, seed: int, replay: str | None = None) -> int:
    run = core.Run(PID, tier, seed)
    if replay:
        return driver.replay_main(run, replay, judge, nontrivial)
    n_plain, n_cancel, n_line = BUDGET[tier]
    scs = [(make_scenario(seed, i, 'plain'), 'plain') for i in range(n_plain)]
    scs += [(make_scenario(seed, i, 'cancel'), 'cancel') for i in range(n_cancel)]
    scs += [(make_scenario(seed, i, 'line'), 'line') for i in range(n_line)]
    results = runner.run_many([s for s, _ in scs])
    acc = driver.Accountant(run)
    for (sc, fam), obs in zip(scs, results):
        acc.add(sc, obs, fam, judge, nontrivial)
        run.count('counter_checks_after_steps', obs.get('steps', 0))
        run.count('waiting_submit_crossings', crossings(obs))
        run.count('tasks_created', obs.get('_created', 0))
        run.count('tasks_assigned_to_workers', obs.get('_assigned', 0))
        run.count('quiescent_beliefs_checked', sum(1 for sn in obs.get('snaps', []) if sn['label'] == 'done'))
        for m in obs.get('msglog', []):
            if m['ev'] == 'recv' and m['msg'][0] in ('WAITING', 'SUBMIT_BATCH', 'UPDATE', 'RESULT', 'CANCEL'):
                run.count('recv:' + m['msg'][0])
    acc.finish_extra()
    for c in ('counter_checks_after_steps', 'waiting_submit_crossings', 'tasks_assigned_to_workers', 'quiescent_beliefs_checked', 'recv:WAITING', 'recv:SUBMIT_BATCH'):
        run.require(c, 1)
    return run.finish(
        rule='scenario = task tree with wide maps (fan-out up to 8, batch size <,=,> idle workers), 1-4 workers under a server or 1-3 managers x 1-3 workers, starvation-heavy delivery orders that hold WAITING or SUBMIT_BATCH back; families without cancellation, with cancellation, and with line-level pre-emption in workers. distinct = (tree shapes, topology, delivery-order hash, pre-emption points); non-trivial = >=3 SUBMIT_BATCH reached workers and >=2 WAITING reached a boss',
        assumptions=driver.SIM_ASSUMPTIONS + [
            'counters are read only while the owning node is parked in select(), i.e. between handlers',
            'the quiescent-belief clause is checked for nodes that manage workers directly (attached/detached server without managers is not possible in detached mode; a manager\'s view of its own workers is checked instead)',
        ],
    )
