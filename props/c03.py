"""C03 — compile() of a unitary, state or state system reaches its target.

Runtime monitor at the API boundary: `bqskit.compile(target, model,
optimization_level=k, with_mapping=True, compiler=...)` for generated targets
(Haar, identity, diagonal, permutation, Clifford, near-identity unitaries;
random/basis/GHZ/W/product states; state systems of 1..dim pairs; qubits and
qutrits; several entanglers and single-qudit gate sets), each compiled by the
real workflow in its own subprocess. The independent simulator decides:

 * unitary: cost1(U_target, U_out) <= budget (under the returned mappings,
   which only optimization level 4 makes non-trivial);
 * state: 1 - |<psi| C |0..0>| <= budget;
 * state system: 1 - |tr(W^dagger C V)|/m <= budget and every pair within
   sqrt(budget) of the common phase (per-pair phases are not allowed);
 * list input: a list of the same length, result i reaches input i and does
   not reach input j != i (inputs are pairwise far apart by construction).

budget = max(1e-10*(ops+1), (k+1)^2 * synthesis_epsilon), DESIGN 2.2.
"""
from __future__ import annotations

from typing import Any

from vlib import compilechk as cc
from vlib import core

PID = 'C03'

# quick: (kind, label, radixes, gateset, level, options)
QUICK: list[tuple[str, str, list[int], str, int, dict[str, Any]]] = [
    ('unitary', 'haar', [2, 2], 'cx_u3', 1, dict(workers=2)),
    ('unitary', 'identity', [2, 2], 'cz_u3', 1, dict(workers=1)),
    ('unitary', 'diagonal', [2, 2], 'cz_rz_sx', 2, dict(workers=2)),
    ('unitary', 'permutation', [2, 2], 'sqisw_u3', 1, dict(workers=2)),
    ('unitary', 'clifford', [2, 2], 'isw_rz_rx', 1, dict(workers=2, eps=1e-6)),
    ('unitary', 'near_identity', [2, 2], 'cx_cz_u3', 2, dict(workers=2)),
    ('unitary', 'haar', [2], 'cx_rz_sx', 3, dict(workers=1)),
    ('unitary', 'haar', [2, 2, 2], 'cx_u3', 1, dict(workers=4, eps=1e-4)),
    ('unitary', 'haar', [3], 'default3', 1, dict(workers=1)),
    ('unitary', 'clifford', [3, 3], 'default3', 1, dict(workers=3)),
    ('unitary', 'haar', [2, 2], 'cz_u3', 4, dict(workers=4)),
    ('state', 'random', [2, 2], 'cx_u3', 1, dict(workers=2)),
    ('state', 'ghz', [2, 2, 2], 'cz_u3', 1, dict(workers=3)),
    ('state', 'w', [2, 2], 'sqisw_u3', 2, dict(workers=2, eps=1e-6)),
    ('system', '2', [2, 2], 'cx_u3', 1, dict(workers=2)),
    ('system', '3', [2, 2], 'cz_u3', 2, dict(workers=2, orthogonal=False, eps=1e-6)),
    ('list', 'u2,s2,y2,u1', [2, 2], 'cx_u3', 1, dict(workers=4, with_mapping=False)),
    ('list', 'u2,u2,s2', [2, 2], 'cz_u3', 1, dict(workers=4, with_mapping=True)),
]
QUICK_TIMEOUT = 300.0

THOROUGH_CASES = 120
THOROUGH_TIMEOUT = {1: 600.0, 2: 900.0, 3: 1200.0, 4: 1500.0}
DIRECT_TIMEOUT = {1: 300.0, 2: 300.0, 3: 600.0, 4: 900.0}   # by width
THOROUGH_BUDGET_S = 30 * 60.0
EST = {1: 5, 2: 12, 3: 40, 4: 120}


def _target(rng: Any, kind: str, label: str, rad: list[int], o: dict[str, Any]) -> dict[str, Any]:
    if kind == 'unitary':
        return cc.gen_unitary_spec(rng, label, rad)
    if kind == 'state':
        return cc.gen_state_spec(rng, label, rad)
    return cc.gen_system_spec(rng, int(label), rad, orthogonal=o.get('orthogonal', True))


def make_case(seed: int, idx: int, tpl: tuple[Any, ...]) -> dict[str, Any]:
    kind, label, rad, gs, lvl, o = tpl
    rng = core.rng_for(seed, PID, 0, idx)
    radix = rad[0]
    if kind == 'list':
        items = []
        for tok in label.split(','):
            k = {'u': 'unitary', 's': 'state', 'y': 'system'}[tok[0]]
            r = [radix] * int(tok[1:])
            lab = 'haar' if k == 'unitary' else 'random' if k == 'state' else '2'
            items.append(_target(rng, k, lab, r, o))
        inp: dict[str, Any] = {'kind': 'list', 'items': items}
        n = max(len(it['radixes']) for it in items)
    else:
        inp = _target(rng, kind, label, rad, o)
        n = len(rad)
    extra = int(o.get('extra', 0))
    model = cc.gen_model_spec(rng, n + extra, o.get('graph', 'line'), gs, radix=radix)
    cfg = {
        'level': lvl, 'mss': int(o.get('mss', max(3, n))), 'eps': float(o.get('eps', 1e-8)),
        'seed': int(rng.integers(1, 1 << 30)), 'workers': int(o.get('workers', 2)),
        'with_mapping': bool(o.get('with_mapping', True)),
    }
    if o.get('error_threshold') is not None:
        cfg['error_threshold'] = float(o['error_threshold'])
    trivial = kind == 'unitary' and label == 'identity'
    return {
        'input': inp, 'model': model, 'config': cfg,
        'est': EST[lvl] * (4 ** n), 'nontrivial': not trivial, 'index': idx,
    }


def thorough_templates(seed: int) -> list[tuple[Any, ...]]:
    rng = core.rng_for(seed, PID, 1)
    out: list[tuple[Any, ...]] = []
    for j in range(THOROUGH_CASES):
        r = rng.random()
        kind = 'unitary' if r < 0.5 else 'state' if r < 0.7 else 'system' if r < 0.88 else 'list'
        lvl = int(rng.choice([1, 1, 1, 2, 2, 3, 4]))
        if kind == 'state':
            # states only get past level 1 when nothing crashes (see report):
            # keep most of them where a distance can be measured
            lvl = int(rng.choice([1, 1, 1, 1, 1, 1, 2, 2, 3, 4]))
        elif kind == 'system' and lvl == 4 and rng.random() < 0.7:
            lvl = int(rng.choice([1, 2, 3]))
        o: dict[str, Any] = {'workers': int(rng.choice([1, 2, 4]))}
        o['eps'] = float(rng.choice([1e-8, 1e-8, 1e-6, 1e-4]))
        qutrit = rng.random() < (0.16 if kind == 'unitary' else 0.05) and lvl <= 3
        if qutrit:
            n = int(rng.integers(1, 3))
            rad = [3] * n
            gs = 'default3'
        else:
            hi = 4 if (lvl == 1 and kind in ('unitary', 'state')) else 3
            if lvl >= 3:
                hi = 2 if kind == 'unitary' else 3
            n = int(rng.integers(1, hi + 1))
            if n == 4 and rng.random() < 0.5:
                n = 3
            if n == 1 and kind in ('state', 'system') and rng.random() < 0.85:
                n = 2   # one-qudit states/systems: a few only
            rad = [2] * n
            gs = str(rng.choice(cc.QUBIT_GATESETS + ['rigetti', 'quantinuum']))
        if n == 4:
            o['mss'] = 4
            o['eps'] = 1e-4 if kind == 'unitary' else o['eps']
            o['workers'] = 4
        if n >= 2 and rng.random() < 0.3:
            o['graph'] = str(rng.choice(['line', 'star', 'all', 'ring']))
        if kind == 'unitary':
            label = str(rng.choice(cc.UNITARY_LABELS))
            if n >= 3 and label == 'haar' and lvl >= 2:
                label = 'clifford'
            if n == 4 and label in ('haar', 'near_identity', 'diagonal'):
                label = str(rng.choice(['permutation', 'clifford', 'identity']))
            if rng.random() < 0.1 and lvl <= 2:
                o['error_threshold'] = 1e-2
        elif kind == 'state':
            label = str(rng.choice(cc.STATE_LABELS))
        elif kind == 'system':
            d = rad[0] ** n
            label = str(int(rng.integers(1, d + 1)))
            o['orthogonal'] = bool(rng.random() < 0.7)
        if kind in ('state', 'system') and lvl >= 2 and rng.random() < 0.85:
            # at level >= 2 the state workflows stall below ~1e-7 (see the
            # report): keep most of these cases at a reachable epsilon
            o['eps'] = float(rng.choice([1e-6, 1e-4]))
        if kind == 'list':
            n = min(n, 2)
            rad = [rad[0]] * 2
            k = int(rng.integers(3, 6))
            toks = []
            for _ in range(k):
                tk = str(rng.choice(['u', 's', 'y']))
                toks.append(tk + str(int(rng.integers(1, 3)) if tk == 'u' or rng.random() < 0.1 else 2))
            label = ','.join(toks)
            o['with_mapping'] = bool(rng.random() < 0.5)
            lvl = min(lvl, 2)
            if any(tk[0] == 's' for tk in toks):
                lvl = 1   # state preparation crashes in its scan above level 1
        out.append((kind, label, rad, gs, lvl, o))
    return out


def on_ok(run: core.Run) -> Any:
    def f(case: dict[str, Any], res: dict[str, Any]) -> None:
        inp = case['input']
        items = inp['items'] if inp['kind'] == 'list' else [inp]
        if inp['kind'] == 'list':
            run.count('list_checked')
            if res.get('cross'):
                run.count('list_cross_pairs', sum(1 for row in res['cross'] for x in row if x is not None))
        for it, ob in zip(items, res['obs']):
            if 'cost' in ob and ob['cost'] is not None:
                run.count('target_distance_checked')
                run.count('target_' + it['kind'])
                run.count('label_%s_%s' % (it['kind'], it.get('label')))
                b = cc.budget_for(case, res, ob)
                run.count('budget_k_from_' + b['k_source'])
                st = run.extra.setdefault('cost_stats', {'max_cost': 0.0, 'max_cost_over_budget': 0.0, 'max_k': 0})
                st['max_cost'] = max(st['max_cost'], ob['cost'])
                st['max_cost_over_budget'] = max(st['max_cost_over_budget'], ob['cost'] / b['budget'])
                st['max_k'] = max(st['max_k'], b['k'])
            if it['radixes'][0] == 3:
                run.count('qutrit_target')
            run.count('width_%d' % len(it['radixes']))
            if ob.get('identity_maps') is False:
                run.count('nonidentity_mapping_returned')
        run.count('gateset_' + case['model']['gateset'])
        run.count('eps_%g' % case['config']['eps'])
    return f


def main(tier: str, seed: int, replay: str | None = None) -> int:
    run = core.Run(PID, tier, seed)
    if replay:
        return cc.replay_case(run, replay, cc.judge_c03)
    if tier == 'quick':
        cases = [make_case(seed, i, t) for i, t in enumerate(QUICK)]
        timeouts = [QUICK_TIMEOUT] * len(cases)
    else:
        import time
        if run.deadline is None:
            run.deadline = time.monotonic() + THOROUGH_BUDGET_S
        cases = [make_case(seed, 1000 + i, t) for i, t in enumerate(thorough_templates(seed))]
        timeouts = [
            min(THOROUGH_TIMEOUT[c['config']['level']], DIRECT_TIMEOUT[min(4, c['model']['n'])])
            for c in cases
        ]
    cc.drive(run, cases, timeouts, cc.judge_c03, on_ok(run))
    for c, m in (
        ('target_distance_checked', 8 if tier == 'quick' else 30),
        ('target_unitary', 3), ('target_state', 1), ('target_system', 1),
        ('list_checked', 1), ('compile_L1', 1), ('compile_L2', 1),
    ):
        run.require(c, m)
    return run.finish(
        rule='one case = one bqskit.compile(target or list of targets, model, optimization_level, synthesis_epsilon, with_mapping) on a private runtime; distinct = distinct (target, model, level, epsilon); non-trivial = target is not the identity and meets compile()\'s preconditions',
        assumptions=[
            'distance is the degree-1 cost 1-|tr(A^dagger B)|/d (the metric of the synthesis success thresholds); states: 1-|<psi|C|0>|; systems: 1-|tr(W^dagger C V)|/m',
            'budget = max(1e-10*(ops+1), (k+1)^2*max(synthesis_epsilon,1e-8)); k from the in-situ pass monitor, else 2 + number of output operations',
            'when with_mapping=True the returned (initial, final) mappings are applied (only level 4, permutation-aware synthesis, returns non-identity ones)',
            'list inputs are pairwise at cost > 1e-4 from each other (random targets)',
        ],
    )


if __name__ == '__main__':
    core.main_entry(main)
