"""C12 — cancelling work removes it everywhere and disturbs nothing else.

Engine: simnet. Families: (a) in-task cancels at every kind of point
(before start, while delayed, while awaiting, after partial next() results,
after completion), (b) client cancel(task_id) racing the compilation, with a
bystander compilation, (c) client close()/abrupt loss with work in flight on a
detached server, with a bystander client. Oracle: K1 no cancelled value
delivered / awaiting a cancelled future raises, K2 no descendant body starts
after every worker processed the CANCEL, K3 tables empty at quiescence, K4
bystanders correct (C07's R1-R5).
"""
from __future__ import annotations

from typing import Any

from vlib import core
from vlib.simnet import driver
from vlib.simnet import runner
from vlib.simnet import scen

PID = 'C12'

BUDGET = {
    # tier: (in-task, in-task line mode, client cancel, disconnect, systematic bases, max points per base)
    'quick': (300, 200, 160, 120, 3, 170),
    'thorough': (1600, 1300, 800, 700, 6, 350),
}


LATE_BUDGET = {'quick': 80, 'thorough': 400}


def tree_for(rng: Any, prefix: str, cancel: bool, big: bool = False) -> tuple[dict, set[str]]:
    g = scen.TreeGen(rng, prefix, max_tasks=int(rng.integers(4, 30 if big else 14)), cancel=cancel,
                     raises=False, nexts=True, unawaited=True, wide=bool(rng.random() < 0.3))
    t = g.tree(int(rng.integers(1, 4)))
    return t, g.features


def has_cancel(tree: dict) -> bool:
    for s in tree['steps']:
        if s[0] == 'cancel':
            return True
        if s[0] == 'submit' and has_cancel(s[2]):
            return True
        if s[0] == 'map' and any(has_cancel(c) for c in s[2]):
            return True
    return False


def make_scenario(seed: int, idx: int, family: str) -> dict:
    fam_id = {'intask': 1, 'intask_line': 2, 'client_cancel': 3, 'disconnect': 4, 'base': 5, 'late_fetch': 6}[family]
    rng = core.rng_for(seed, PID, fam_id, idx)
    sc = driver.sched_params(rng)
    feats: set[str] = set()
    if family in ('intask', 'intask_line', 'base'):
        topo = driver.topology(rng) if family != 'base' else {'kind': 'attached', 'workers': int(rng.integers(2, 4))}
        if family == 'base' and idx % 3 == 2:
            topo = {'kind': 'detached', 'managers': [2], 'nested': False}
        for _ in range(60):
            tree, f = tree_for(rng, 'c0t', True, big=(family != 'base'))
            if has_cancel(tree):
                break
        feats |= f
        clients = [{'name': 'c0', 'ops': [['connect'], ['compile', tree], ['quiesce', 'done'], ['close']]}]
        if topo['kind'] == 'detached' and rng.random() < 0.4:
            t2, f2 = tree_for(rng, 'c1t', bool(rng.random() < 0.5))
            clients.append({'name': 'c1', 'ops': [['connect'], ['compile', t2], ['quiesce', 'done'], ['close']]})
        if family == 'intask_line':
            sc['line'] = {'random_p': float(rng.choice([0.002, 0.005, 0.01])), 'budget': int(rng.integers(1, 4)), 'hold': int(rng.choice([3, 8, 30, 100000]))}
        if family == 'base':
            sc['policy'] = 'eager'
            sc['inflight'] = False
    elif family == 'client_cancel':
        topo = driver.topology(rng, p_attached=0.5)
        victim, f1 = tree_for(rng, 'c0v', bool(rng.random() < 0.3), big=True)
        by, f2 = tree_for(rng, 'c0b', False)
        feats |= f1 | f2 | {'client_cancel'}
        ops: list = [['connect'], ['submit', 'v', victim]]
        if rng.random() < 0.7:
            ops.append(['submit', 'b', by])
            feats.add('bystander_same_client')
        ops.append(['yield', int(rng.choice([0, 1, 3, 8, 20, 60]))])
        ops.append(['cancel', 'v'])
        if ['submit', 'b', by] in ops:
            ops.append(['result', 'b'])
        ops.append(['quiesce', 'after_cancel'])
        if rng.random() < 0.4:
            ops.append(['result', 'v'])      # must not return the output
            feats.add('result_after_cancel')
        ops.append(['close'])
        clients = [{'name': 'c0', 'ops': ops}]
        if topo['kind'] == 'detached' and rng.random() < 0.5:
            t2, f3 = tree_for(rng, 'c1t', False)
            clients.append({'name': 'c1', 'ops': [['connect'], ['compile', t2], ['quiesce', 'done'], ['close']]})
            feats.add('bystander_other_client')
    elif family == 'late_fetch':
        # cancel / disconnect *after completion*: the result reaches the
        # server before the client asks for it (both clients wait at a
        # quiescence barrier), the client fetches it late, optionally cancels
        # the delivered id again, and leaves while another client's
        # compilation is running
        nm = int(rng.integers(1, 3))
        topo = {'kind': 'detached', 'managers': [int(rng.integers(1, 4)) for _ in range(nm)], 'nested': False}
        done, f1 = tree_for(rng, 'c0d', False)
        t2, f3 = tree_for(rng, 'c1t', False, big=True)
        feats |= f1 | f3 | {'late_fetch'}
        ops = [['connect'], ['submit', 'd', done], ['quiesce', 'd_done'], ['result', 'd']]
        if rng.random() < 0.5:
            ops.append(['cancel', 'd'])
            feats.add('cancel_after_delivery')
        ops += [['yield', int(rng.choice([0, 2, 6, 15, 40]))], ['close']]
        clients = [
            {'name': 'c0', 'ops': ops},
            {'name': 'c1', 'ops': [['connect'], ['quiesce', 'd_done'], ['compile', t2], ['quiesce', 'done'], ['close']]},
        ]
    else:  # disconnect with work in flight (detached only: attached = shutdown)
        nm = int(rng.integers(1, 3))
        topo = {'kind': 'detached', 'managers': [int(rng.integers(1, 4)) for _ in range(nm)], 'nested': False}
        victim, f1 = tree_for(rng, 'c0v', bool(rng.random() < 0.3), big=True)
        feats |= f1 | {'disconnect_in_flight'}
        ops = [['connect'], ['submit', 'v', victim], ['yield', int(rng.choice([0, 2, 6, 15, 40, 100]))], ['close']]
        clients = [{'name': 'c0', 'ops': ops}]
        t2, f3 = tree_for(rng, 'c1t', False)
        clients.append({'name': 'c1', 'ops': [['connect'], ['compile', t2], ['quiesce', 'done'], ['close']]})
        if rng.random() < 0.35:
            # abrupt loss: the client process dies instead of closing
            clients[0]['ops'] = [['connect'], ['submit', 'v', victim], ['quiesce', 'never']]
            sc['crash'] = {str(int(rng.integers(60, 400))): 'c0'}
            feats.add('abrupt_client_loss')
    sc.update({'topology': topo, 'clients': clients, 'features': sorted(feats), 'family': family})
    return sc


def judge(sc: dict, obs: dict) -> tuple[list[dict], str | None]:
    inc = driver.sim_failed(obs)
    if inc:
        return [], inc
    fam = sc.get('family', 'intask')
    w: list[dict] = []
    w += scen.check_values(sc, obs)                  # K1 + values everywhere
    w += scen.check_compile_results(sc, obs)         # K4 for blocking compiles
    w += scen.check_cancel_starts(sc, obs)           # K2
    w += scen.check_no_internal_errors(sc, obs)
    outs = {(c['client'], c['op']): c for c in obs.get('clients', [])}
    # bystander result fetched through submit/result
    from vlib.simnet import workloads as WL
    # an ERROR of one of a client's own compilations (a raising body, an await
    # of a cancelled future) is raised by whatever call of that client reads
    # the connection next
    own_msgs: dict[str, list[str]] = {}
    for comp in scen.compilations(sc):
        _, ex_ = WL.interpret(comp['tree'])
        own_msgs.setdefault(comp['client'], []).extend(([ex_.raises] if ex_.raises else []) + ex_.may_raise)

    def own_error(client: str, rec: dict) -> bool:
        return any(m in rec.get('msg', '') for m in own_msgs.get(client, []))
    for comp in scen.compilations(sc):
        if comp['op'] == 'submit:b':
            rec = outs.get((comp['client'], 'result:b'))
            val, ex = WL.interpret(comp['tree'])
            if rec and rec['outcome'] == 'value':
                got = rec['value'].get('tree_result') if isinstance(rec['value'], dict) else rec['value']
                if scen.norm(got) != scen.norm(val):
                    w.append({'kind': 'bystander:wrong_value', 'got': got, 'want': val})
            elif rec and rec['outcome'] == 'raise' and not own_error(comp['client'], rec):
                w.append({'kind': 'bystander:error', 'msg': rec.get('msg', '')[-300:], 'site': scen._err_site(rec.get('msg', ''))})
        if comp['op'] == 'submit:d':
            rec = outs.get((comp['client'], 'result:d'))
            val, ex = WL.interpret(comp['tree'])
            if rec and rec['outcome'] == 'value':
                got = rec['value'].get('tree_result') if isinstance(rec['value'], dict) else rec['value']
                if scen.norm(got) != scen.norm(val):
                    w.append({'kind': 'late_fetch:wrong_value', 'got': got, 'want': val})
            elif rec and rec['outcome'] == 'raise':
                w.append({'kind': 'late_fetch:result_raised', 'msg': rec.get('msg', '')[-300:], 'site': scen._err_site(rec.get('msg', ''))})
            rc = outs.get((comp['client'], 'cancel:d'))
            if rc and rc['outcome'] == 'raise':
                w.append({'kind': 'late_fetch:cancel_after_delivery_raised', 'msg': rc.get('msg', '')[-300:], 'site': scen._err_site(rc.get('msg', ''))})
        if comp['op'] == 'submit:v':
            rec = outs.get((comp['client'], 'result:v'))
            if rec and rec['outcome'] == 'value':
                w.append({'kind': 'cancel:result_returned_after_client_cancel', 'got': rec['value']})
            rc = outs.get((comp['client'], 'cancel:v'))
            if rc and rc['outcome'] == 'raise' and not own_error(comp['client'], rc):
                w.append({'kind': 'cancel:client_cancel_raised', 'msg': rc.get('msg', '')[-300:], 'site': scen._err_site(rc.get('msg', ''))})
    # progress: a client parked at the 'never' barrier is the abrupt-loss victim
    for x in scen.check_progress(sc, obs):
        w.append(x)
    # K3 at every quiescent snapshot and at the end
    snaps = list(obs.get('snaps', []))
    for sn in snaps:
        if sn['label'] in ('done', 'after_cancel'):
            # all compilations that are not cancelled have been fetched by now
            pending = [c for c in obs.get('clients', []) if c['outcome'] == 'open' and c['op'] != 'close']
            if not pending:
                w += scen.check_tables_empty(sn)
    if obs.get('end') == 'quiescent' and sc['topology']['kind'] == 'detached':
        fin = obs.get('final', {})
        w += scen.check_tables_empty(fin)
        all_gone = all(st in ('finished', 'killed') for st in obs.get('client_threads', {}).values())
        w += scen.check_server_tables(fin, all_gone)
    # de-duplicate by kind
    return w, None


def nontrivial(sc: dict, obs: dict) -> bool:
    cancels = sum(1 for m in obs.get('msglog', []) if m['ev'] == 'recv' and m['msg'][0] == 'CANCEL')
    bodies = sum(1 for x in obs.get('exec_log', []) if x[2] == 'start')
    if sc.get('family') == 'late_fetch':
        return bodies >= 2 and any(c['op'] == 'result:d' and c['outcome'] == 'value' for c in obs.get('clients', []))
    return cancels >= 1 and bodies >= 2


def _points(b: dict) -> list[dict]:
    return driver.systematic_points(b)


# ------------------------------------------------ real processes (procnet)
PROC_BUDGET = {'quick': 8, 'thorough': 60}


def procnet_case(arg: tuple[int, int]) -> dict:
    """One real runtime on private ports: 6-12 compilations in waves, trees
    with in-task cancels and un-awaited children, the client cancels some
    compilations of each wave (at once or after a real delay) and fetches the
    others; afterwards a probing compilation reads every worker's tables."""
    from vlib import procnet as P
    from vlib.simnet import workloads as WL
    seed, idx = arg
    rng = core.rng_for(seed, PID, 30, idx)
    trees, expected = [], []
    n = int(rng.integers(6, 13))
    while len(trees) < n:
        g = scen.TreeGen(rng, 'p%dt' % len(trees), max_tasks=int(rng.integers(6, 40)), cancel=bool(rng.random() < 0.7), raises=False, nexts=True,
                         unawaited=True, wide=bool(rng.random() < 0.4))
        tree = g.tree(int(rng.integers(1, 4)))
        val, ex = WL.interpret(tree)
        if ex.raises is not None or ex.may_raise:
            continue  # awaiting a cancelled future fails the compilation: kept to the simulation
        trees.append(tree)
        expected.append(val)
    topo = str(rng.choice(['attached', 'attached', 'detached']))
    wave = int(rng.choice([2, 3, 4, 6]))
    cancel = sorted(int(k) for k in range(n) if rng.random() < 0.4)
    case: dict[str, Any] = {
        'topology': topo, 'trees': trees, 'wave': wave, 'reverse_fetch': bool(rng.random() < 0.5), 'cancel': cancel,
        'cancel_delay': float(rng.choice([0.0, 0.0, 0.001, 0.005, 0.02, 0.1])), 'probe_tables': 24, 'probe_attempts': 4,
        'env': {'VERIF_INJECT': '1', 'VERIF_MON': 'switch', 'VERIF_SWITCHINT': str(rng.choice(['0.005', '0.0001', '0.00001']))},
    }
    if topo == 'attached':
        case['workers'] = int(rng.integers(2, 5))
    else:
        case['managers'] = [[2], [1, 1], [2, 2], [3, 1]][int(rng.integers(4))]
    rec = P.stress_case(case, expected)
    rec['idx'] = idx
    rec['case'] = {k: v for k, v in case.items() if k != 'trees'}
    rec['case']['ntrees'] = n
    rec['in_task_cancels'] = sum(1 for t in trees if has_cancel(t))
    rec.pop('tables', None)
    return rec


def main(tier: str, seed: int, replay: str | None = None) -> int:
    run = core.Run(PID, tier, seed)
    if replay:
        import json
        w = json.load(open(replay)).get('witness', {})
        if w.get('family') == 'procnet':
            rec = procnet_case((w['procnet']['seed'], w['procnet']['idx']))
            run.case('procnet-replay')
            run.case('procnet-replay-pad')
            for x in rec['witness']:
                run.violation(dict(x, family='procnet', procnet=w['procnet']))
            print('replayed real-process case: returned=%s correct=%s witnesses=%s' % (rec['returned'], rec['correct'], [x['kind'] for x in rec['witness']]))
            return run.finish(rule='replay of one real-process cancel case (timing is not reproducible; the case is)', assumptions=[])
        return driver.replay_main(run, replay, judge, nontrivial)
    n_in, n_line, n_cc, n_dc, n_base, max_pts = BUDGET[tier]
    scs = [(make_scenario(seed, i, 'intask'), 'intask') for i in range(n_in)]
    scs += [(make_scenario(seed, i, 'intask_line'), 'intask_line') for i in range(n_line)]
    scs += [(make_scenario(seed, i, 'client_cancel'), 'client_cancel') for i in range(n_cc)]
    scs += [(make_scenario(seed, i, 'disconnect'), 'disconnect') for i in range(n_dc)]
    scs += [(make_scenario(seed, i, 'late_fetch'), 'late_fetch') for i in range(LATE_BUDGET[tier])]
    bases = [make_scenario(seed, i, 'base') for i in range(n_base)]
    for pts in core.pmap(_points, bases, workers=min(8, len(bases))):
        scs += [(s, 'systematic') for s in pts[:max_pts]]
    results = runner.run_many([s for s, _ in scs])
    acc = driver.Accountant(run)
    for (sc, fam), obs in zip(scs, results):
        acc.add(sc, obs, fam, judge, nontrivial)
        run.count('cancel_messages_delivered', sum(1 for m in obs.get('msglog', []) if m['ev'] == 'recv' and m['msg'][0] == 'CANCEL'))
        run.count('cancels_processed_by_all_workers', obs.get('_cancels_processed', 0))
        run.count('quiescent_snapshots_checked', len(obs.get('snaps', [])))
    acc.finish_extra()
    n_proc = PROC_BUDGET[tier]
    precs = core.pmap(procnet_case, [(seed, i) for i in range(n_proc)], workers=4)
    for rec in precs:
        run.case(core.sig_of(('procnet', rec['idx'], rec['case'])), nontrivial=rec['correct'] >= 2 and rec.get('cancelled', 0) + rec['in_task_cancels'] >= 1,
                 sample={'family': 'procnet', 'case': rec['case'], 'returned': rec['returned'], 'correct': rec['correct'], 'cancelled': rec.get('cancelled', 0),
                         'workers_probed': rec.get('workers_probed'), 'events': rec['events'][:6]} if rec['idx'] < 2 else None)
        run.count('executions:procnet')
        run.count('procnet_topology:' + rec['case']['topology'])
        run.count('procnet_bystander_results_compared', rec['returned'])
        run.count('procnet_bystander_results_correct', rec['correct'])
        run.count('procnet_client_cancels', rec.get('cancelled', 0))
        run.count('procnet_trees_with_in_task_cancel', rec['in_task_cancels'])
        run.count('procnet_worker_tables_probed', rec.get('workers_probed', 0))
        run.count('procnet_probe_attempts', rec.get('probe_attempts', 0))
        if rec.get('inconclusive'):
            run.count('procnet_inconclusive')
            run.extra.setdefault('procnet_inconclusive_reasons', []).append('case %d: %s' % (rec['idx'], rec['inconclusive']))
        for x in rec['witness']:
            x = dict(x)
            x['family'] = 'procnet'
            x['procnet'] = {'seed': seed, 'idx': rec['idx']}
            x['case'] = rec['case']
            run.violation(x)
    if run.counters.get('procnet_inconclusive', 0) > 0.3 * n_proc:
        run.inconclusive_because('%d of %d real-process cases were inconclusive' % (run.counters['procnet_inconclusive'], n_proc))
    for c in ('procnet_bystander_results_compared', 'procnet_client_cancels', 'procnet_worker_tables_probed', 'executions:late_fetch'):
        run.require(c, 1)
    for c in ('deliveries', 'task_bodies_run', 'cancel_messages_delivered', 'cancels_processed_by_all_workers', 'quiescent_snapshots_checked', 'preemptions'):
        run.require(c, 1)
    return run.finish(
        rule='scenario families: in-task cancel at every kind of point (before start / delayed / awaiting / after partial next() / after completion, await of a cancelled future), client cancel(task_id) after 0-60 scheduler turns with bystanders, client close() or abrupt client death with work in flight on a detached server with a bystander client; late fetch (result reaches the server before the client asks, then result, optional second cancel of the delivered id, and close while another client compiles); random delivery orders, random and systematic line-level pre-emption. distinct = (tree shapes, client ops, topology, delivery-order hash, pre-emption/crash points); non-trivial = >=1 CANCEL delivered and >=2 bodies ran. Real-process family (procnet): real bqskit.runtime processes over real sockets (attached 2-4 workers or detached managers), 6-12 compilations in waves of 2-6 with in-task cancels and un-awaited children, the client cancels ~40% of them at once or after 1-100 ms and fetches the rest (each value compared with the interpreter); then a probing compilation maps a leaf over all workers that reports tasks, delayed tasks and mailboxes not belonging to the probe itself (up to 4 probes 0.5-1.5 s apart: only an entry present in the last probe is called a leak)',
        assumptions=driver.SIM_ASSUMPTIONS + [
            'K3 excludes the tombstone set of cancelled ids and the id->connection retention while the client stays connected, as the property statement does',
        ],
    )
